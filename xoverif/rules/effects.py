"""NM -- the shared generator configuration is never mutated (effect analysis over the whole package).

`typeutils.default_conf` is the default `conf` of every `_gen_c_api` / `_gen_c_decl` / `_gen_kernels` and of the capi
emitters: one dict object for the whole process.  A function that changes it through any alias changes what every later
generation emits (seeded C15-e: `build_kernels` blanked the target placeholders in it "for cffi" -- after the first
CPU build the OpenCL form lost every `__global`, the CUDA form every `__device__`).  The T/S rules evaluate the
generator in a fresh interpreter and cannot see such a cross-call effect, so it is decided here, structurally:

  shared     module-level names bound to a dict / list / set display (or dict()/list()/set() call) that some function
             uses as a PARAMETER DEFAULT (a registry that modules append to is not one);
  aliases    in each function: parameters whose default IS a shared name, names assigned from an alias (`x = alias`,
             `x = alias or ...`, `x = a if c else alias`), attributes `mod.<shared>`; a copy (`dict(x)`, `x.copy()`,
             `{**x}`, `copy.copy(x)`, `list(x)`, `x[:]`) is not an alias;
  mutation   alias[k] = .., del alias[k], alias[k] += .., alias |= .., alias.update/pop/popitem/setdefault/clear/
             append/extend/insert/remove/sort/reverse/add/discard(...), or passing an alias to a package function that
             mutates the corresponding parameter (fixed point over the package's functions).

Every function of every module is analysed; a mutation is a violation naming the function, the alias chain and the
shared object.  The analysis is checked on a built-in positive example on every run (a rule that can match nothing
passes vacuously).
"""
import ast

from ..core import rule
from ..srcmodel import norm

MUTATORS = {"update", "pop", "popitem", "setdefault", "clear", "append", "extend", "insert", "remove", "sort", "reverse", "add", "discard", "__setitem__", "__delitem__"}
COPIERS = {"dict", "list", "set", "copy", "deepcopy", "OrderedDict", "sorted", "tuple", "frozenset"}


def _is_container_display(v):
    if isinstance(v, (ast.Dict, ast.List, ast.Set, ast.DictComp, ast.ListComp, ast.SetComp)):
        return True
    return isinstance(v, ast.Call) and isinstance(v.func, ast.Name) and v.func.id in ("dict", "list", "set", "OrderedDict", "defaultdict")


def _module_containers(tree):
    out = {}
    for st in tree.body:
        if isinstance(st, ast.Assign) and len(st.targets) == 1 and isinstance(st.targets[0], ast.Name) and _is_container_display(st.value):
            out[st.targets[0].id] = st
        elif isinstance(st, ast.AnnAssign) and isinstance(st.target, ast.Name) and st.value is not None and _is_container_display(st.value):
            out[st.target.id] = st
    return out


def _functions(tree):
    """(qualified name, FunctionDef) for every function, methods and nested ones included"""
    out = []

    def walk(body, prefix):
        for st in body:
            if isinstance(st, (ast.FunctionDef, ast.AsyncFunctionDef)):
                out.append((prefix + st.name, st))
                walk(st.body, prefix + st.name + ".")
            elif isinstance(st, ast.ClassDef):
                walk(st.body, prefix + st.name + ".")
            else:
                for fld in ("body", "orelse", "finalbody"):
                    walk(getattr(st, fld, None) or [], prefix)
                for h in getattr(st, "handlers", None) or []:
                    walk(h.body, prefix)

    walk(tree.body, "")
    return out


def _own(fn):
    """nodes of fn's body that are not inside a nested def / class / lambda"""
    stack = list(fn.body)
    while stack:
        n = stack.pop()
        yield n
        for c in ast.iter_child_nodes(n):
            if isinstance(c, (ast.FunctionDef, ast.AsyncFunctionDef, ast.ClassDef, ast.Lambda)):
                continue
            stack.append(c)


def _params(fn):
    a = fn.args
    pos = list(a.posonlyargs) + list(a.args)
    defaults = [None] * (len(pos) - len(a.defaults)) + list(a.defaults)
    out = [(p.arg, d) for p, d in zip(pos, defaults)]
    out += [(p.arg, d) for p, d in zip(a.kwonlyargs, a.kw_defaults)]
    return out


class _Analysis:
    def __init__(self, trees):
        """trees: {module name: ast.Module}"""
        self.trees = trees
        self.containers = {m: _module_containers(t) for m, t in trees.items()}
        # which module-level containers are SHARED: used as a parameter default somewhere, or imported elsewhere
        self.imports = {m: {} for m in trees}  # local name -> (module, name)
        self.modalias = {m: {} for m in trees}  # local module alias -> module
        for m, t in trees.items():
            for st in ast.walk(t):
                if isinstance(st, ast.ImportFrom) and st.module is not None:
                    src = st.module.split(".")[-1]
                    for al in st.names:
                        if src in trees and al.name in self.containers[src]:
                            self.imports[m][al.asname or al.name] = (src, al.name)
                        elif al.name in trees and (st.module in ("", "xobjects") or st.level):
                            self.modalias[m][al.asname or al.name] = al.name
                    if not st.module and st.level:
                        for al in st.names:
                            if al.name in trees:
                                self.modalias[m][al.asname or al.name] = al.name
                elif isinstance(st, ast.ImportFrom) and st.module is None and st.level:
                    for al in st.names:
                        if al.name in trees:
                            self.modalias[m][al.asname or al.name] = al.name
        self.funcs = {m: _functions(t) for m, t in trees.items()}
        self.shared = set()
        for m in trees:
            for q, fn in self.funcs[m]:
                for _p, d in _params(fn):
                    r = self.resolve_shared(m, d)
                    if r:
                        self.shared.add(r)

    def resolve_shared(self, m, expr):
        """(module, name) when expr denotes a module-level container object, else None"""
        if isinstance(expr, ast.Name):
            if expr.id in self.imports[m]:
                return self.imports[m][expr.id]
            if expr.id in self.containers[m]:
                return (m, expr.id)
        if isinstance(expr, ast.Attribute) and isinstance(expr.value, ast.Name) and expr.value.id in self.modalias[m]:
            src = self.modalias[m][expr.value.id]
            if expr.attr in self.containers.get(src, {}):
                return (src, expr.attr)
        return None

    # ------------------------------------------------------------ per function
    def aliases(self, m, fn, extra=None):
        """{local name: (shared object, how)} -- flow-insensitive may-alias (a name once bound to the shared object is
        an alias everywhere in the function unless EVERY binding of it is a copy)"""
        al = dict(extra or {})
        for p, d in _params(fn):
            r = self.resolve_shared(m, d) if d is not None else None
            if r:
                al[p] = (r, f"parameter `{p}` defaults to {r[0]}.{r[1]}")
        changed = True
        while changed:
            changed = False
            for n in _own(fn):
                tgts, val = [], None
                if isinstance(n, ast.Assign):
                    tgts, val = n.targets, n.value
                elif isinstance(n, ast.AnnAssign) and n.value is not None:
                    tgts, val = [n.target], n.value
                elif isinstance(n, ast.NamedExpr):
                    tgts, val = [n.target], n.value
                for t in tgts:
                    if isinstance(t, ast.Name) and t.id not in al:
                        src = self.may_be(m, val, al)
                        if src:
                            al[t.id] = (src[0], f"`{t.id} = {norm(val)[:60]}` ({src[1]})")
                            changed = True
        return al

    def may_be(self, m, expr, al):
        """(shared, how) when the VALUE of expr may be the shared object itself (not a copy)"""
        if expr is None:
            return None
        r = self.resolve_shared(m, expr)
        if r and r in self.shared:
            return (r, f"{r[0]}.{r[1]}")
        if r:
            return (r, f"{r[0]}.{r[1]}")
        if isinstance(expr, ast.Name) and expr.id in al:
            return (al[expr.id][0], al[expr.id][1])
        if isinstance(expr, ast.BoolOp):
            for v in expr.values:
                x = self.may_be(m, v, al)
                if x:
                    return x
        if isinstance(expr, ast.IfExp):
            return self.may_be(m, expr.body, al) or self.may_be(m, expr.orelse, al)
        if isinstance(expr, ast.NamedExpr):
            return self.may_be(m, expr.value, al)
        return None

    def direct_mutations(self, m, fn, al):
        out = []

        def base_alias(e):
            return self.may_be(m, e, al)

        for n in _own(fn):
            if isinstance(n, (ast.Assign, ast.AugAssign, ast.AnnAssign)):
                tgts = n.targets if isinstance(n, ast.Assign) else [n.target]
                for t in tgts:
                    for tt in (t.elts if isinstance(t, (ast.Tuple, ast.List)) else [t]):
                        if isinstance(tt, ast.Subscript):
                            b = base_alias(tt.value)
                            if b:
                                out.append((n, f"`{norm(n)[:70]}` stores into it", b))
                if isinstance(n, ast.AugAssign) and isinstance(n.target, ast.Name):
                    b = base_alias(n.target)
                    if b and isinstance(n.op, (ast.BitOr, ast.Add, ast.BitAnd, ast.Sub, ast.BitXor, ast.Mult)):
                        out.append((n, f"`{norm(n)[:70]}` updates it in place", b))
            elif isinstance(n, ast.Delete):
                for t in n.targets:
                    if isinstance(t, ast.Subscript):
                        b = base_alias(t.value)
                        if b:
                            out.append((n, f"`{norm(n)[:70]}` deletes from it", b))
            elif isinstance(n, ast.Call) and isinstance(n.func, ast.Attribute) and n.func.attr in MUTATORS:
                b = base_alias(n.func.value)
                if b:
                    out.append((n, f"`{norm(n)[:70]}` changes it in place", b))
        return out


def analyse(trees):
    """-> list of (module, function qualname, node, what, (shared, how))"""
    A = _Analysis(trees)
    found = []
    # parameters a function mutates directly (by name): for the interprocedural step
    mut_params = {}
    for m in trees:
        for q, fn in A.funcs[m]:
            pn = [p for p, _ in _params(fn)]
            al = {p: ((m, f"<param {p}>"), f"parameter `{p}`") for p in pn}
            hits = A.direct_mutations(m, fn, A.aliases(m, fn, al))
            mp = set()
            for node, what, (obj, how) in hits:
                if obj[1].startswith("<param "):
                    mp.add(obj[1][7:-1])
            if mp:
                mut_params[(m, q.split(".")[-1])] = (pn, mp)
    for m in trees:
        for q, fn in A.funcs[m]:
            al = A.aliases(m, fn)
            for node, what, b in A.direct_mutations(m, fn, al):
                found.append((m, q, node, what, b))
            # passing an alias to a function that mutates that parameter
            for n in _own(fn):
                if not isinstance(n, ast.Call):
                    continue
                name = n.func.id if isinstance(n.func, ast.Name) else n.func.attr if isinstance(n.func, ast.Attribute) else None
                cands = [(k, v) for k, v in mut_params.items() if k[1] == name]
                for (cm, cn), (pn, mp) in cands:
                    off = 1 if pn and pn[0] in ("self", "cls") and isinstance(n.func, ast.Attribute) else 0
                    for i, a in enumerate(n.args):
                        if i + off < len(pn) and pn[i + off] in mp:
                            b = A.may_be(m, a, al)
                            if b:
                                found.append((m, q, n, f"`{norm(n)[:70]}` hands it to {cm}.{cn}, which changes its parameter `{pn[i + off]}` in place", b))
                    for kw in n.keywords:
                        if kw.arg in mp:
                            b = A.may_be(m, kw.value, al)
                            if b:
                                found.append((m, q, n, f"`{norm(n)[:70]}` hands it to {cm}.{cn}, which changes its parameter `{kw.arg}` in place", b))
    return A, found


POSITIVE = {
    "typeutils": "default_conf = {'gpumem': 'G', 'gpufun': 'F'}\n",
    "user": (
        "from .typeutils import default_conf\n"
        "from . import typeutils\n"
        "def gen(cls, conf=default_conf):\n    return conf.get('gpumem')\n"
        "def clean(conf=default_conf):\n    c = dict(conf)\n    c.update(gpumem='')\n    return c\n"
        "def build():\n    cdef_conf = default_conf\n    cdef_conf.update(gpumem='')\n    return gen(None, cdef_conf)\n"
        "def build2(conf=default_conf):\n    conf['gpumem'] = ''\n"
        "def helper(d):\n    d.pop('gpufun', None)\n"
        "def build3():\n    helper(typeutils.default_conf)\n"
    ),
}


@rule("NM", ["C15", "C14", "C02"], "effect analysis over the whole package: no function mutates, through any alias, a module-level container that serves as a shared default (typeutils.default_conf: the generator configuration)")
def nm(cx):
    m = cx.m
    # the analysis must find the three mutating functions of the built-in example and none of the two clean ones
    _A, pos = analyse({k: ast.parse(v) for k, v in POSITIVE.items()})
    got = sorted({q for _m, q, *_ in pos})
    cx.need(got == ["build", "build2", "build3"], f"[NM] self-check: the built-in example gives {got}, expected ['build', 'build2', 'build3']")
    trees = {name: m.mod(name).tree for name in sorted(m.mods)}
    A, found = analyse(trees)
    cx.need(("typeutils", "default_conf") in A.shared, "[NM] typeutils.default_conf is no longer a module-level dict used as a shared default (anchor vanished)")
    nfun = sum(len(v) for v in A.funcs.values())
    users = sorted({(mm, q) for mm in trees for q, fn in A.funcs[mm] if any(A.resolve_shared(mm, d) for _p, d in _params(fn) if d is not None)})
    cx.need(len(users) >= 8, f"[NM] only {len(users)} functions take a shared container as a parameter default (expected the _gen_c_* family)")
    bad_funcs = set()
    for mm, q, node, what, (obj, how) in found:
        if obj[1].startswith("<param ") or obj not in A.shared:
            continue
        bad_funcs.add((mm, q))
        loc = ast.copy_location(ast.Pass(), node)
        cx.bad(None, construct=f"{mm}.{q}: {what}", detail=f"the object is {obj[0]}.{obj[1]} itself ({how}): every later generation in this process sees the change (the shared generator configuration must be copied before it is edited)", anchor=f"{mm}::{q}", sub="mutation")
    for obj in sorted(A.shared):
        cx.ok(None, construct=f"{obj[0]}.{obj[1]}: {nfun} functions of {len(trees)} modules analysed, {len(users)} use a shared container as a parameter default", detail="no function changes it in place through any alias (copies are not aliases)", anchor=f"{obj[0]}::{obj[1]}", sub="shared") if not bad_funcs else None


# ------------------------------------------------------------------------------------------ MC memoised results
def _is_memo(fn):
    for d in fn.decorator_list:
        t = d.func if isinstance(d, ast.Call) else d
        nm = t.id if isinstance(t, ast.Name) else t.attr if isinstance(t, ast.Attribute) else None
        if nm in ("lru_cache", "cache"):
            return True
    return False


def _call_name(n):
    return n.func.id if isinstance(n.func, ast.Name) else n.func.attr if isinstance(n.func, ast.Attribute) else None


def analyse_memo(trees):
    """-> (memo functions [(module, qualname)], producers {bare name: why}, findings [(module, qualname, node, what, chain)])

    producers: functions whose RESULT may be the object a memoised function keeps (the memoised function itself; any
    function returning the result of a producer, directly or through a local) -- resolved by bare name, as the package
    calls its planners through many receivers (`ftype._inspect_args(..)`); fixed point."""
    funcs = {m: _functions(t) for m, t in trees.items()}
    memo = [(m, q) for m in trees for q, fn in funcs[m] if _is_memo(fn)]
    producers = {q.split(".")[-1]: f"{m}.{q} is memoised (functools)" for m, q in memo}
    if not memo:
        return memo, producers, []

    def aliases_of(fn):
        al = {}
        changed = True
        while changed:
            changed = False
            for n in _own(fn):
                tgts, val = [], None
                if isinstance(n, ast.Assign):
                    tgts, val = n.targets, n.value
                elif isinstance(n, ast.AnnAssign) and n.value is not None:
                    tgts, val = [n.target], n.value
                elif isinstance(n, ast.NamedExpr):
                    tgts, val = [n.target], n.value
                src = may_be(val, al)
                if src:
                    for t in tgts:
                        if isinstance(t, ast.Name) and t.id not in al:
                            al[t.id] = src
                            changed = True
        return al

    def may_be(e, al):
        if e is None:
            return None
        if isinstance(e, ast.Name) and e.id in al:
            return al[e.id]
        if isinstance(e, ast.Call) and _call_name(e) in producers:
            return f"`{norm(e)[:50]}` <- {producers[_call_name(e)]}"
        if isinstance(e, ast.IfExp):
            return may_be(e.body, al) or may_be(e.orelse, al)
        if isinstance(e, ast.BoolOp):
            for v in e.values:
                r = may_be(v, al)
                if r:
                    return r
        return None

    changed = True
    while changed:
        changed = False
        for m in trees:
            for q, fn in funcs[m]:
                nm = q.split(".")[-1]
                if nm in producers:
                    continue
                al = aliases_of(fn)
                for n in _own(fn):
                    if isinstance(n, ast.Return) and n.value is not None:
                        r = may_be(n.value, al)
                        if r:
                            producers[nm] = f"{m}.{q} returns {r}"
                            changed = True
                            break
    # parameters a function changes in place (attribute / item stores, mutator calls): for results handed on
    mut_params = {}
    for m in trees:
        for q, fn in funcs[m]:
            pn = [p for p, _ in _params(fn)]
            hit = set()
            for n in _own(fn):
                for b in _mutated_bases(n):
                    if isinstance(b, ast.Name) and b.id in pn:
                        hit.add(b.id)
            if hit:
                mut_params.setdefault(q.split(".")[-1], []).append((m, q, pn, hit))
    found = []
    for m in trees:
        for q, fn in funcs[m]:
            al = aliases_of(fn)
            if not al and not any(isinstance(n, ast.Call) and _call_name(n) in producers for n in _own(fn)):
                continue
            for n in _own(fn):
                for b in _mutated_bases(n):
                    r = may_be(b, al)
                    if r:
                        found.append((m, q, n, f"`{norm(n)[:70]}` changes it in place", r))
                if isinstance(n, ast.Call) and _call_name(n) in mut_params:
                    for cm, cq, pn, hit in mut_params[_call_name(n)]:
                        off = 1 if pn and pn[0] in ("self", "cls", "instance") and isinstance(n.func, ast.Attribute) else 0
                        for i, a in enumerate(n.args):
                            if i + off < len(pn) and pn[i + off] in hit and may_be(a, al):
                                found.append((m, q, n, f"`{norm(n)[:70]}` hands it to {cm}.{cq}, which changes its parameter `{pn[i + off]}` in place", may_be(a, al)))
                        for kw in n.keywords:
                            if kw.arg in hit and may_be(kw.value, al):
                                found.append((m, q, n, f"`{norm(n)[:70]}` hands it to {cm}.{cq}, which changes its parameter `{kw.arg}` in place", may_be(kw.value, al)))
    return memo, producers, found


def _mutated_bases(n):
    """expressions whose object the statement / call n changes in place"""
    out = []
    if isinstance(n, (ast.Assign, ast.AugAssign, ast.AnnAssign)):
        tgts = n.targets if isinstance(n, ast.Assign) else [n.target]
        for t in tgts:
            for tt in (t.elts if isinstance(t, (ast.Tuple, ast.List)) else [t]):
                if isinstance(tt, (ast.Subscript, ast.Attribute)):
                    out.append(tt.value)
    elif isinstance(n, ast.Delete):
        for t in n.targets:
            if isinstance(t, (ast.Subscript, ast.Attribute)):
                out.append(t.value)
    elif isinstance(n, ast.Call):
        if isinstance(n.func, ast.Attribute) and n.func.attr in MUTATORS:
            out.append(n.func.value)
        elif isinstance(n.func, ast.Name) and n.func.id in ("setattr", "delattr") and n.args:
            out.append(n.args[0])
    return out


MC_POSITIVE = {
    "planner": (
        "import functools\n"
        "class Info:\n    def __init__(self, size):\n        self.size = size\n"
        "@functools.lru_cache(maxsize=None)\n"
        "def _inspect_text(text):\n    return Info(len(text) + 9)\n"
        "@functools.lru_cache()\n"
        "def _width(kind):\n    return (8, kind)\n"
        "class MetaS(type):\n    def _inspect_args(cls, text):\n        info = _inspect_text(text)\n        return info\n"
    ),
    "user": (
        "def set_field(ftype, value, reserved):\n    info = ftype._inspect_args(value)\n    info.size = reserved\n    return info\n"
        "def read_only(ftype, value):\n    info = ftype._inspect_args(value)\n    return info.size + 1\n"
        "def widen(ftype, value):\n    info = ftype._inspect_args(value)\n    grow(info)\n"
        "def grow(i):\n    i.size += 8\n"
        "def local_only(n):\n    info = dict(size=n)\n    info['size'] = 3\n    return info\n"
        "def uses_width(kind):\n    w = _width(kind)\n    return w[0]\n"
    ),
}


@rule("MC", ["C03", "C10", "C01", "C11"], "effect analysis over the whole package: the result of a memoised function (functools.lru_cache / cache) is shared by every later caller with equal arguments -- nobody changes it in place")
def mc(cx):
    """A planner result (`Info`: size, offsets, the prepared value) is edited by its callers -- `Field.__set__` and
    `Array.__setitem__` write the RESERVED size into it before handing it to the writer.  That is harmless as long as
    every call makes a fresh object.  Memoising such a function makes the edit stick for the rest of the process: a later
    plan for an equal value starts from the edited object (seeded C03-h: a text once assigned to a roomy slot was planned
    with that slot's size ever after -- a copy then wrote past its extent, a fitting assignment elsewhere was refused).
    Decided structurally: memoised functions, everything that may return their result (fixed point, bare-name call
    resolution), and every in-place change (attribute / item store, mutator call, hand-over to a function that changes
    its parameter) of a value that may be such a result."""
    m = cx.m
    memo, prod, pos = analyse_memo({k: ast.parse(v) for k, v in MC_POSITIVE.items()})
    got = sorted({q for _m, q, *_ in pos})
    cx.need(got == ["set_field", "widen"] and len(memo) == 2, f"[MC] self-check: the built-in example gives {got} / {memo}")
    trees = {name: m.mod(name).raw_tree for name in sorted(m.mods)}
    memo, prod, found = analyse_memo(trees)
    nfun = sum(len(_functions(t)) for t in trees.values())
    for mm, q, node, what, chain in found:
        cx.bad(None, construct=f"{mm}.{q}: {what}", detail=f"the value may be the object a memoised function keeps ({chain}): every later call with equal arguments gets the changed object", anchor=f"{mm}::{q}", sub="mutation")
    if not found:
        cx.ok(None, construct=f"{len(memo)} memoised function(s) among {nfun} functions of {len(trees)} modules" + (f": {', '.join(f'{a}.{b}' for a, b in memo)}; {len(prod)} functions may return their results" if memo else ""),
              detail="no result of a memoised function is changed in place" if memo else "nothing is memoised: every planner call makes a fresh object", anchor="typeutils::Info", sub="memo")
