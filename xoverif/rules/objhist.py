"""SV -- plain xobjects (structs with dynamically sized fields, arrays of such structs) decided over histories.

The CURRENT source of struct.py / array.py / typeutils.py is interpreted (xoverif.peval) on the abstract memory
(positions `off_k + const`, known words carried along by buffer-to-buffer copies).  Nothing of /repo is executed.

Zoo:  ArrF = Float64[:],  S{a: ArrF, b: ArrF, c: Float64}  (two dynamically sized fields: the position of `b` is
stored in the object and cached on the handle),  AS = S[:]  (items of dynamic size: item offset table).
Objects:  s1 = S(a=[1], b=[1,2,3], c=5) and s2 = S(a=[4,5,6], b=[7], c=6) in buffer A (same size, different layout),
s4 = S(a=[1,2], b=[3,4], c=9) in buffer B (same size again),  arr = AS([S(a=[1],b=[2,3],c=1), S(a=[4,5],b=[6],c=2)]).

After EVERY step of EVERY history (bounded length) over the operations below, for every live handle whose object was
not restructured through ANOTHER handle:

  coherence   the handle locates every field / item exactly where a view made afresh from (buffer, offset) locates it,
              with the same shapes (C06: handle == view, also after rewrites; PF20/PF21/seeded C10-a);
  values      every leaf read through the handle is the value the history says it must have (C10, C09);
  frame       an operation changes no known word outside the object (or the element) it is applied to (C10, C03).
"""
import itertools
import os

from ..core import rule
from ..linear import Poly
from ..peval import Obj, Opaque, PyExc, Sym
from ..srcmodel import AnalysisError
from .layout import Lab, pol


class _Bad(Exception):
    pass


class ObjWorld:
    def __init__(self, model):
        self.lab = Lab(model)
        self.I, self.W = self.lab.I, self.lab.W
        self.W.copy_bytes = True
        self.bufs = {"A": self.W.buffer}

        def distinct_allocations(d):
            ats = d.atoms()
            if ats and all(str(a).startswith("off") for a in ats):
                return False
            return None

        self.I.eq_oracle = distinct_allocations

    def buf(self, tag):
        if tag not in self.bufs:
            self.bufs[tag] = self.W.mk_buffer(tag)
        return self.bufs[tag]

    # ------------------------------------------------------------ observation
    def is_struct(self, h):
        return isinstance(h, Obj) and h.cls is not None and "_fields" in (h.cls.attrs if isinstance(h.cls, Obj) else {})

    def is_array(self, h):
        return isinstance(h, Obj) and h.cls is not None and isinstance(h.cls, Obj) and "_itemtype" in h.cls.attrs

    def shape(self, a):
        return [int(x) if isinstance(x, (int, float)) and float(x) == int(x) else x for x in self.I.iterate(self.I.getattr(a, "_shape"))]

    def walk(self, h, path=""):
        """-> list of (path, position polynomial, value) for every leaf, and (path + '#', position, shape) for
        every array, located THROUGH THE HANDLE h"""
        I = self.I
        out = []
        if self.is_struct(h):
            for f in h.cls.attrs["_fields"]:
                fn = I.getattr(f, "name")
                ft, pos = I.call(I.getattr(f, "get_offset"), [h], {})
                v = I.getattr(h, fn)
                if self.is_struct(v) or self.is_array(v):
                    if pol(v.attrs["_offset"]) != pol(pos):
                        raise _Bad(f"{path}.{fn}: the field locator gives {pol(pos)!r}, the returned view sits at {pol(v.attrs['_offset'])!r}")
                    out.extend(self.walk(v, f"{path}.{fn}"))
                else:
                    out.append((f"{path}.{fn}", pol(pos), v))
        elif self.is_array(h):
            shp = self.shape(h)
            out.append((path + "#", pol(h.attrs["_offset"]), tuple(shp)))
            if not all(isinstance(d, int) for d in shp):
                raise _Bad(f"{path}: shape {shp!r} read through the handle is not a tuple of integers")
            if any(d > 16 for d in shp):
                raise _Bad(f"{path}: shape {shp!r} read through the handle is not the shape of any object of the history")
            for idx in itertools.product(*[range(d) for d in shp]):
                key = idx[0] if len(idx) == 1 else tuple(idx)
                pos = I.call(I.getattr(h, "_get_offset"), [key], {})
                v = I.call(I.getattr(h, "__getitem__"), [key], {})
                pth = f"{path}[{','.join(map(str, idx))}]"
                if self.is_struct(v) or self.is_array(v):
                    out.extend(self.walk(v, pth))
                else:
                    out.append((pth, pol(pos), v))
        else:
            raise _Bad(f"{path}: {h!r} is neither a struct nor an array handle")
        return out

    def fresh(self, h):
        I = self.I
        return I.call(I.getattr(h.cls, "_from_buffer"), [h.attrs["_buffer"], h.attrs["_offset"]], {})

    def coherent(self, h, name):
        I = self.I
        n0 = len(I.effects)
        try:
            a = self.walk(h, name)
        except (PyExc, _Bad) as e:
            del I.effects[n0:]
            return [f"{name}: reading through the kept handle fails: {e}"], None
        try:
            b = self.walk(self.fresh(h), name)
        except (PyExc, _Bad) as e:
            del I.effects[n0:]
            return [f"{name}: reading through a fresh view fails: {e}"], None
        del I.effects[n0:]
        bad = []
        if [x[0] for x in a] != [x[0] for x in b]:
            pa_, pb_ = [x[0] for x in a], [x[0] for x in b]
            k_ = next((i for i, (x, y) in enumerate(zip(pa_, pb_)) if x != y), min(len(pa_), len(pb_)))
            bad.append(f"{name}: the kept handle and a fresh view see different parts: {len(pa_)} vs {len(pb_)} leaves, first difference `{pa_[k_] if k_ < len(pa_) else '<none>'}` vs `{pb_[k_] if k_ < len(pb_) else '<none>'}`")
            return bad, a
        for (p, pa, va), (_, pb, vb) in zip(a, b):
            if pa != pb:
                bad.append(f"{p}: the kept handle locates it at {pa!r}, a view made from (buffer, offset) at {pb!r}")
                break
            if p.endswith("#") and va != vb:
                bad.append(f"{p[:-1]}: shape {va} through the kept handle, {vb} through a fresh view")
                break
        return bad, a


def _vals(leaves):
    return {p: v for p, _, v in leaves if not p.endswith("#")}


def _strip(leaves, name):
    return {p[len(name):]: v for p, v in _vals(leaves).items()}


# ------------------------------------------------------------------------------------------ the history machine
class Hist:
    def __init__(self, model):
        self.ow = ObjWorld(model)
        self.I = self.ow.I
        self.objs = {}     # name -> primary handle
        self.expect = {}   # name -> {relative leaf path: value}
        self.found = []

    def build(self):
        I, ow = self.I, self.ow
        F = I.global_lookup("scalar", "Float64")
        self.ArrF = ow.lab.array("ArrF", [None], (0,), F)
        self.S = ow.lab.struct("S", [("a", self.ArrF), ("b", self.ArrF), ("c", F)])
        self.AS = ow.lab.array("ArrS", [None], (0,), self.S)
        A, B = ow.buf("A"), ow.buf("B")
        mk = lambda a, b, c, buf: I.call(self.S, [], {"a": list(a), "b": list(b), "c": c, "_buffer": buf})
        self.objs["s1"] = mk([1.0], [1.0, 2.0, 3.0], 5.0, A)
        self.objs["s2"] = mk([4.0, 5.0, 6.0], [7.0], 6.0, A)
        self.objs["s4"] = mk([1.5, 2.5], [3.5, 4.5], 9.0, B)
        self.objs["arr"] = I.call(self.AS, [[{"a": [1.0], "b": [2.0, 3.0], "c": 1.0}, {"a": [4.0, 5.0], "b": [6.0], "c": 2.0}]], {"_buffer": A})
        # a struct holding a struct with two dynamically sized fields (three levels: p -> p.c -> p.c.b): whatever the
        # parent handle keeps about the nested part must follow a rewrite of that part
        self.P = ow.lab.struct("P", [("n", F), ("c", self.S)])
        self.objs["p"] = I.call(self.P, [], {"n": 0.5, "c": {"a": [1.0], "b": [1.0, 2.0, 3.0], "c": 5.0}, "_buffer": A})
        self.expect["p"] = {".n": 0.5, ".c.a[0]": 1.0, ".c.b[0]": 1.0, ".c.b[1]": 2.0, ".c.b[2]": 3.0, ".c.c": 5.0}
        self.Q = ow.lab.struct("Q3", [("k", F), ("m", self.P)])
        self.objs["q"] = I.call(self.Q, [], {"k": 0.25, "m": {"n": 0.5, "c": {"a": [1.0], "b": [1.0, 2.0, 3.0], "c": 5.0}}, "_buffer": A})
        self.expect["q"] = {".k": 0.25, ".m.n": 0.5, ".m.c.a[0]": 1.0, ".m.c.b[0]": 1.0, ".m.c.b[1]": 2.0, ".m.c.b[2]": 3.0, ".m.c.c": 5.0}
        Str = I.global_lookup("string", "String")
        self.SA = ow.lab.array("ArrStr", [3], (0,), Str)
        LONG = "a" * 23
        self.objs["sa1"] = I.call(self.SA, [[LONG, "bb", "cc"]], {"_buffer": A})
        self.objs["sa2"] = I.call(self.SA, [[LONG, "dd", "ee"]], {"_buffer": A})
        self.expect["sa1"] = {"[0]": LONG, "[1]": "bb", "[2]": "cc"}
        self.expect["sa2"] = {"[0]": LONG, "[1]": "dd", "[2]": "ee"}
        self.expect["s1"] = {".a[0]": 1.0, ".b[0]": 1.0, ".b[1]": 2.0, ".b[2]": 3.0, ".c": 5.0}
        self.expect["s2"] = {".a[0]": 4.0, ".a[1]": 5.0, ".a[2]": 6.0, ".b[0]": 7.0, ".c": 6.0}
        self.expect["s4"] = {".a[0]": 1.5, ".a[1]": 2.5, ".b[0]": 3.5, ".b[1]": 4.5, ".c": 9.0}
        self.expect["arr"] = {"[0].a[0]": 1.0, "[0].b[0]": 2.0, "[0].b[1]": 3.0, "[0].c": 1.0, "[1].a[0]": 4.0, "[1].a[1]": 5.0, "[1].b[0]": 6.0, "[1].c": 2.0}

    def extent(self, h):
        return h.attrs["_buffer"], pol(h.attrs["_offset"]), pol(self.I.call(self.I.getattr(h, "_get_size"), [], {}))

    def snapshot(self):
        return dict(self.I.mem)

    def frame(self, before, allowed, label):
        """every known word that changed lies inside one of the allowed (position, nbytes) extents"""
        W = self.ow.W
        out = []
        after = self.I.mem
        for k in {k for k in set(before) | set(after) if not k.startswith("#")}:
            if before.get(k, "<unknown>") == after.get(k, "<unknown>") or (k in before and k in after and self.I._eq(before[k], after[k]) is True):
                continue
            p = W.polys.get(k)
            if p is None:
                continue
            if k not in after and self.I.mem.get("#imprecise"):
                raise AnalysisError(f"{label}: the word at {p!r} cannot be followed through a bulk store (update_from_nplike / data of unknown length)")
            inside = False
            for pos, nb in allowed:
                d = p - pos
                if d.is_const() and nb.is_const() and 0 <= d.const_value() < nb.const_value():
                    inside = True
            if not inside:
                out.append(f"{label}: the word at {p!r} changes from {before.get(k, '<unknown>')!r} to {after.get(k, '<unknown>')!r}, outside the object the operation is applied to")
        return out[:2]

    def check_all(self, step, opn):
        for name, h in self.objs.items():
            bad, leaves = self.ow.coherent(h, name)
            for b in bad:
                self.found.append((step, opn, b))
            if leaves is not None and not bad:
                got = _strip(leaves, name)
                want = self.expect[name]
                if set(got) != set(want):
                    self.found.append((step, opn, f"{name} has the parts {sorted(got)}, the history gives it {sorted(want)}"))
                else:
                    for p in sorted(want):
                        eq = self.I._eq(got[p], want[p])
                        if eq is None and self.I.mem.get("#imprecise"):
                            # a bulk store this memory does not follow made the word unknown: not a verdict
                            raise AnalysisError(f"SV: {name}{p} cannot be followed through a bulk store (update_from_nplike / data of unknown length)")
                        if eq is not True:
                            self.found.append((step, opn, f"{name}{p} reads {got[p]!r}, the history gives it {want[p]!r}"))
                            break

    # ------------------------------------------------------------ operations
    def op_update_same_size(self, dst, src):
        I = self.I
        h, v = self.objs[dst], self.objs[src]
        before = self.snapshot()
        _, pos, nb = self.extent(h)
        I.call(I.getattr(h, "_update"), [v], {})
        self.expect[dst] = dict(self.expect[src])
        return self.frame(before, [(pos, nb)], f"{dst}._update({src})")

    def op_nested_from_struct(self):
        """p.c = <S of the same total size with the other split of a / b>, p.c having been read before: the nested part
        is re-laid out inside p; reading p.c.b through the kept handle p finds it where a fresh view does
        (seeded C18-h: the parent handle memoised the view of its nested struct)"""
        I = self.I
        h = self.objs["p"]
        na = len([k for k in self.expect["p"] if k.startswith(".c.a[")])
        nb_ = len([k for k in self.expect["p"] if k.startswith(".c.b[")])
        I.getattr(I.getattr(h, "c"), "b")  # the nested parts have been looked at
        new = {"a": [20.0 + i for i in range(nb_)], "b": [30.0 + i for i in range(na)], "c": 7.5}
        v = I.call(self.S, [], dict(new, _buffer=self.ow.buf("B")))
        before = self.snapshot()
        _, pos, nb = self.extent(I.getattr(h, "c"))
        I.setattr(h, "c", v)
        self.expect["p"] = {".n": self.expect["p"][".n"], ".c.c": 7.5, **{f".c.a[{i}]": x for i, x in enumerate(new["a"])}, **{f".c.b[{i}]": x for i, x in enumerate(new["b"])}}
        return self.frame(before, [(pos, nb)], "p.c = <S of the same size, a / b exchanged>")

    def op_nested2_from_struct(self):
        """q.m = <P of the same total size whose nested S has the other split>, q.m.c.b having been read before: the part
        TWO levels down is re-laid out; the kept handle q finds q.m.c.b where a fresh view does"""
        I = self.I
        h = self.objs["q"]
        na = len([k for k in self.expect["q"] if k.startswith(".m.c.a[")])
        nb_ = len([k for k in self.expect["q"] if k.startswith(".m.c.b[")])
        I.getattr(I.getattr(I.getattr(h, "m"), "c"), "b")
        new = {"a": [40.0 + i for i in range(nb_)], "b": [50.0 + i for i in range(na)], "c": 8.5}
        v = I.call(self.P, [], {"n": 1.5, "c": dict(new), "_buffer": self.ow.buf("B")})
        before = self.snapshot()
        _, pos, nb = self.extent(I.getattr(h, "m"))
        I.setattr(h, "m", v)
        self.expect["q"] = {".k": self.expect["q"][".k"], ".m.n": 1.5, ".m.c.c": 8.5, **{f".m.c.a[{i}]": x for i, x in enumerate(new["a"])}, **{f".m.c.b[{i}]": x for i, x in enumerate(new["b"])}}
        return self.frame(before, [(pos, nb)], "q.m = <P of the same size, nested a / b exchanged>")

    def op_update_dict(self):
        I = self.I
        h = self.objs["s1"]
        before = self.snapshot()
        f = [f for f in h.cls.attrs["_fields"] if I.getattr(f, "name") == "c"][0]
        pos = I.call(I.getattr(f, "get_offset"), [h], {})[1]
        I.call(I.getattr(h, "_update"), [{"c": 2.25}], {})
        self.expect["s1"][".c"] = 2.25
        return self.frame(before, [(pol(pos), Poly.const(8))], "s1._update({'c': 2.25})")

    def op_set_field_array(self):
        I = self.I
        h = self.objs["s1"]
        n = len([k for k in self.expect["s1"] if k.startswith(".b[")])
        before = self.snapshot()
        b = I.getattr(h, "b")
        _, pos, nb = self.extent(b)
        new = [10.0 + i for i in range(n)]
        I.setattr(h, "b", new)
        for i, x in enumerate(new):
            self.expect["s1"][f".b[{i}]"] = x
        return self.frame(before, [(pos, nb)], f"s1.b = {new}")

    def op_set_item(self):
        I = self.I
        h = self.objs["s1"]
        before = self.snapshot()
        b = I.getattr(h, "b")
        pos = I.call(I.getattr(b, "_get_offset"), [0], {})
        I.call(I.getattr(b, "__setitem__"), [0, 4.75], {})
        self.expect["s1"][".b[0]"] = 4.75
        return self.frame(before, [(pol(pos), Poly.const(8))], "s1.b[0] = 4.75")

    def op_copy_then_update_copy(self):
        """a copy is rewritten; the object it was copied from must neither change nor lose its handle"""
        I = self.I
        src = self.objs["s1"]
        before = self.snapshot()
        c = I.call(self.S, [src], {"_buffer": self.ow.buf("A")})
        _, pos, nb = self.extent(c)
        out = []
        if pol(c.attrs["_offset"]) == pol(src.attrs["_offset"]):
            out.append("S(s1) views s1 itself")
        I.call(I.getattr(c, "_update"), [self.objs["s2"]], {})
        name = f"copy{len(self.objs)}"
        self.objs[name] = c
        self.expect[name] = dict(self.expect["s2"])
        return out + self.frame(before, [(pos, nb)], "c = S(s1); c._update(s2)")

    def op_copy_to_other_buffer(self):
        I = self.I
        src = self.objs["s1"]
        before = self.snapshot()
        c = I.call(self.S, [src], {"_buffer": self.ow.buf("B")})
        _, pos, nb = self.extent(c)
        name = f"copy{len(self.objs)}"
        self.objs[name] = c
        self.expect[name] = dict(self.expect["s1"])
        out = []
        if c.attrs["_buffer"] is not self.ow.buf("B"):
            out.append("S(s1, _buffer=B) does not live in B")
        return out + self.frame(before, [(pos, nb)], "S(s1, _buffer=B)")

    def op_item_field_set(self):
        I = self.I
        arr = self.objs["arr"]
        before = self.snapshot()
        it = I.call(I.getattr(arr, "__getitem__"), [1], {})
        f = [f for f in it.cls.attrs["_fields"] if I.getattr(f, "name") == "c"][0]
        pos = I.call(I.getattr(f, "get_offset"), [it], {})[1]
        I.setattr(it, "c", 7.5)
        self.expect["arr"]["[1].c"] = 7.5
        return self.frame(before, [(pol(pos), Poly.const(8))], "arr[1].c = 7.5")

    def op_item_assign(self):
        """arr[0] = arr[1]: items are compounds, updated in place; both items have the same size here"""
        I = self.I
        arr = self.objs["arr"]
        before = self.snapshot()
        it0 = I.call(I.getattr(arr, "__getitem__"), [0], {})
        it1 = I.call(I.getattr(arr, "__getitem__"), [1], {})
        _, pos, nb = self.extent(it0)
        I.call(I.getattr(arr, "__setitem__"), [0, it1], {})
        for k in [k for k in self.expect["arr"] if k.startswith("[0]")]:
            del self.expect["arr"][k]
        for k, v in list(self.expect["arr"].items()):
            if k.startswith("[1]"):
                self.expect["arr"]["[0]" + k[3:]] = v
        return self.frame(before, [(pos, nb)], "arr[0] = arr[1]")

    def op_item_from_struct(self):
        I = self.I
        arr = self.objs["arr"]
        it1 = I.call(I.getattr(arr, "__getitem__"), [1], {})
        _, pos, nb = self.extent(it1)
        # an S of the same size as the item (a: 2 values, b: 1 value)
        src = I.call(self.S, [], {"a": [8.0, 9.0], "b": [10.0], "c": 11.0, "_buffer": self.ow.buf("B")})
        before = self.snapshot()
        I.call(I.getattr(arr, "__setitem__"), [1, src], {})
        for k in [k for k in self.expect["arr"] if k.startswith("[1]")]:
            del self.expect["arr"][k]
        self.expect["arr"].update({"[1].a[0]": 8.0, "[1].a[1]": 9.0, "[1].b[0]": 10.0, "[1].c": 11.0})
        return self.frame(before, [(pos, nb)], "arr[1] = S(a=[8,9], b=[10], c=11)")

    def op_str_shrink(self):
        """an item overwritten by a shorter string keeps its reserved room: the array is no longer packed"""
        I = self.I
        h = self.objs["sa2"]
        before = self.snapshot()
        pos = I.call(I.getattr(h, "_get_offset"), [0], {})
        I.call(I.getattr(h, "__setitem__"), [0, "s"], {})
        self.expect["sa2"]["[0]"] = "s"
        return self.frame(before, [(pol(pos), Poly.const(32))], "sa2[0] = 's'")

    def op_str_update(self):
        I = self.I
        h, v = self.objs["sa1"], self.objs["sa2"]
        before = self.snapshot()
        _, pos, nb = self.extent(h)
        I.call(I.getattr(h, "_update"), [v], {})
        self.expect["sa1"] = dict(self.expect["sa2"])
        return self.frame(before, [(pos, nb)], "sa1._update(sa2)")

    def op_str_update_other_size(self):
        """an array of the same class but another total size: either taken over completely or refused with nothing
        changed (never half written: PF19)"""
        I = self.I
        h = self.objs["sa1"]
        small = I.call(self.SA, [["p", "q", "r"]], {"_buffer": self.ow.buf("B")})
        before = self.snapshot()
        _, pos, nb = self.extent(h)
        try:
            I.call(I.getattr(h, "_update"), [small], {})
        except PyExc:
            return self.frame(before, [], "refused sa1._update(<String[3] of another size>)")
        self.expect["sa1"] = {"[0]": "p", "[1]": "q", "[2]": "r"}
        return self.frame(before, [(pos, nb)], "sa1._update(<String[3] of another size>)")

    def op_str_item_fit(self):
        I = self.I
        h = self.objs["sa1"]
        before = self.snapshot()
        pos = I.call(I.getattr(h, "_get_offset"), [1], {})
        I.call(I.getattr(h, "__setitem__"), [1, "zz"], {})
        self.expect["sa1"]["[1]"] = "zz"
        return self.frame(before, [(pol(pos), Poly.const(16))], "sa1[1] = 'zz'")

    def op_str_item_too_long(self):
        I = self.I
        h = self.objs["sa1"]
        before = self.snapshot()
        out = []
        try:
            I.call(I.getattr(h, "__setitem__"), [1, "x" * 40], {})
            out.append("sa1[1] = <40 characters> is accepted although the item has room for 7")
        except PyExc:
            pass
        return out + self.frame(before, [], "refused sa1[1] = <40 characters>")

    def slot_word(self, h, pos):
        I = self.I
        return I.call(I.getattr(I.global_lookup("scalar", "Int64"), "_from_buffer"), [h.attrs["_buffer"], pos], {})

    def op_str_item_from_object(self):
        """a String OBJECT (smaller than the slot) assigned to an item: the item takes its text and keeps the size it
        was created with (PF51)"""
        I = self.I
        h = self.objs["sa1"]
        Str = I.global_lookup("string", "String")
        TXT = "h\u00e9\u00e9\u00e9"  # non-ASCII: 4 characters, 7 bytes (a copy sized by characters loses the tail -- seeded C09-f)
        v = I.call(Str, [TXT], {"_buffer": self.ow.buf("B")})
        before = self.snapshot()
        pos = I.call(I.getattr(h, "_get_offset"), [0], {})
        w0 = self.slot_word(h, pos)
        I.call(I.getattr(h, "__setitem__"), [0, v], {})
        self.expect["sa1"]["[0]"] = TXT
        out = []
        w1 = self.slot_word(h, pos)
        if I._eq(w0, w1) is not True:
            out.append(f"sa1[0] = String({TXT!r}): the size recorded in the item's slot changes from {w0!r} to {w1!r} (the size of an instance cannot change after creation)")
        return out + self.frame(before, [(pol(pos), Poly.const(32))], f"sa1[0] = String({TXT!r})")

    def op_str_copy(self):
        """String[3](sa2): a copy reads what its source reads, also when items of the source have room to spare (PF53)"""
        I = self.I
        src = self.objs["sa2"]
        before = self.snapshot()
        c = I.call(self.SA, [src], {"_buffer": self.ow.buf("B")})
        _, pos, nb = self.extent(c)
        name = f"copy{len(self.objs)}"
        self.objs[name] = c
        self.expect[name] = dict(self.expect["sa2"])
        return self.frame(before, [(pos, nb)], "String[3](sa2, _buffer=B)")

    def op_update_dict_refused_late(self):
        """s1._update({a: <fits>, b: <too long>}): `a` comes first and is written before `b` is refused; the refusal
        must leave s1 as it was (PF52)"""
        I = self.I
        h = self.objs["s1"]
        na = len([k for k in self.expect["s1"] if k.startswith(".a[")])
        nb_ = len([k for k in self.expect["s1"] if k.startswith(".b[")])
        before = self.snapshot()
        out = []
        try:
            I.call(I.getattr(h, "_update"), [{"a": [70.0 + i for i in range(na)], "b": [0.5] * (nb_ + 3)}], {})
            out.append(f"s1._update(a=<{na} values>, b=<{nb_ + 3} values>) is accepted although b holds {nb_}")
        except PyExc:
            pass
        return out + self.frame(before, [], f"refused s1._update(a=<{na} values>, b=<{nb_ + 3} values>)")

    def op_array_update_refused_late(self):
        """Q[2]._update([<fits>, <nested array of another shape>]): item 0 is written before item 1 is refused; the
        refusal must leave the array as it was (PF52)"""
        I, ow = self.I, self.ow
        if not hasattr(self, "QA"):
            F = I.global_lookup("scalar", "Float64")
            V2 = ow.lab.array("ArrF2", [2], (0,), F)
            self.Q = ow.lab.struct("Q", [("v", V2)])
            self.QA = ow.lab.array("ArrQ", [2], (0,), self.Q)
        qa = I.call(self.QA, [[{"v": [1.0, 2.0]}, {"v": [3.0, 4.0]}]], {"_buffer": ow.buf("B")})
        before = self.snapshot()
        out = []
        try:
            I.call(I.getattr(qa, "_update"), [[{"v": [9.0, 9.0]}, {"v": [1.0, 2.0, 3.0]}]], {})
            out.append("Q[2]._update([{v:[9,9]}, {v:[1,2,3]}]) is accepted although v holds 2 values")
        except PyExc:
            pass
        return out + self.frame(before, [], "refused Q[2]._update([{v:[9,9]}, {v:[1,2,3]}])")

    def op_too_long(self):
        """a value that does not fit must be refused with nothing changed"""
        I = self.I
        h = self.objs["s1"]
        before = self.snapshot()
        n = len([k for k in self.expect["s1"] if k.startswith(".b[")])
        out = []
        try:
            I.setattr(h, "b", [0.5] * (n + 3))
            out.append(f"s1.b = <{n + 3} values> is accepted although the field holds {n}")
        except PyExc:
            pass
        return out + self.frame(before, [], f"refused s1.b = <{n + 3} values>")


    # ------------------------------------------------------------ operations applied through ANOTHER handle
    def op_update_via_view(self, dst, src):
        """the same whole-value update, applied through a second handle of the object (a view made from its buffer
        and offset, as every field / item / reference access makes one); the handle kept in the history is then the
        OLDER one and must still locate every part where the bytes now say it is (C10: "through randomly chosen
        handles/views", "cached vs reread offsets")"""
        I = self.I
        h, v = self.objs[dst], self.objs[src]
        view = self.ow.fresh(h)
        before = self.snapshot()
        _, pos, nb = self.extent(h)
        I.call(I.getattr(view, "_update"), [v], {})
        self.expect[dst] = dict(self.expect[src])
        return self.frame(before, [(pos, nb)], f"view_of({dst})._update({src})")

    def op_str_relayout_via_view(self):
        """a whole-array update with texts of other lengths (same total) applied through a view of sa1: the items move"""
        I = self.I
        h = self.objs["sa1"]
        view = self.ow.fresh(h)
        before = self.snapshot()
        _, pos, nb = self.extent(h)
        new = ["s", "t" * 23, "uu"]
        I.call(I.getattr(view, "_update"), [new], {})
        self.expect["sa1"] = {"[0]": new[0], "[1]": new[1], "[2]": new[2]}
        return self.frame(before, [(pos, nb)], "view_of(sa1)._update(['s', 't'*23, 'uu'])")

    def op_str_relayout(self):
        """the same update through the kept handle itself (its cache is refreshed: must hold)"""
        I = self.I
        h = self.objs["sa1"]
        before = self.snapshot()
        _, pos, nb = self.extent(h)
        new = ["s", "t" * 23, "uu"]
        I.call(I.getattr(h, "_update"), [new], {})
        self.expect["sa1"] = {"[0]": new[0], "[1]": new[1], "[2]": new[2]}
        return self.frame(before, [(pos, nb)], "sa1._update(['s', 't'*23, 'uu'])")


OPS_OLDER = {
    "update-via-view-from-s2": lambda H: H.op_update_via_view("s1", "s2"),
    "update-via-view-from-other-buffer": lambda H: H.op_update_via_view("s1", "s4"),
    "str-relayout-via-view": lambda H: H.op_str_relayout_via_view(),
}

OPS = {
    "str-relayout": lambda H: H.op_str_relayout(),
    "update-from-s2": lambda H: H.op_update_same_size("s1", "s2"),
    "update-from-other-buffer": lambda H: H.op_update_same_size("s1", "s4"),
    "update-s2-from-s4": lambda H: H.op_update_same_size("s2", "s4"),
    "update-dict": lambda H: H.op_update_dict(),
    "nested-from-struct": lambda H: H.op_nested_from_struct(),
    "nested2-from-struct": lambda H: H.op_nested2_from_struct(),
    "set-array-field": lambda H: H.op_set_field_array(),
    "set-item": lambda H: H.op_set_item(),
    "copy-then-update-copy": lambda H: H.op_copy_then_update_copy(),
    "copy-to-other-buffer": lambda H: H.op_copy_to_other_buffer(),
    "item-field-set": lambda H: H.op_item_field_set(),
    "item-assign": lambda H: H.op_item_assign(),
    "item-from-struct": lambda H: H.op_item_from_struct(),
    "too-long": lambda H: H.op_too_long(),
    "str-shrink-item": lambda H: H.op_str_shrink(),
    "str-update": lambda H: H.op_str_update(),
    "str-item-fit": lambda H: H.op_str_item_fit(),
    "str-update-other-size": lambda H: H.op_str_update_other_size(),
    "str-item-too-long": lambda H: H.op_str_item_too_long(),
    "str-item-from-object": lambda H: H.op_str_item_from_object(),
    "str-copy": lambda H: H.op_str_copy(),
    "update-dict-refused-late": lambda H: H.op_update_dict_refused_late(),
    "array-update-refused-late": lambda H: H.op_array_update_refused_late(),
}


def run_history(model, hist):
    H = Hist(model)
    I = H.I

    def thunk():
        H.build()
        H.check_all(-1, "construct")
        if H.found:
            return
        for k, opn in enumerate(hist):
            try:
                for b in (OPS.get(opn) or OPS_OLDER[opn])(H):
                    H.found.append((k, opn, b))
            except PyExc as e:
                H.found.append((k, opn, f"raises {e.etype}: {e}"))
                return
            except _Bad as e:
                H.found.append((k, opn, str(e)))
                return
            H.check_all(k, opn)
            if H.found:
                return

    try:
        res = I.explore(thunk, max_paths=4)
    except (AnalysisError, _Bad) as e:
        return H.found, str(e)
    if len(res) != 1:
        return H.found, f"{len(res)} evaluation paths (an undecided condition: {res[0]['conds'][:2]})"
    if res[0]["exc"] is not None:
        return H.found, f"construction raises {res[0]['exc'].etype}: {res[0]['exc']}"
    return H.found, None


_MODEL_CACHE = {}


def _model(root):
    from ..srcmodel import Model

    if root not in _MODEL_CACHE:
        _MODEL_CACHE.clear()
        _MODEL_CACHE[root] = Model(root)
    return _MODEL_CACHE[root]


def _worker(args):
    root, hists = args
    model = _model(root)
    return [(h,) + run_history(model, h) for h in hists]


@rule("SV", ["C06", "C10", "C09", "C11", "C03", "C05", "C18"], "structs with dynamic fields and arrays of them: after every history of {update, field/item assignment, copy, refused assignment} every kept handle agrees with a fresh view, reads the expected values, and nothing outside the target changed")
def sv(cx):
    m = cx.m
    for _mod in ('struct', 'array', 'string', 'scalar', 'typeutils'):
        m.mod(_mod)  # interpreted by the worker processes: recorded as consulted
    for q in ("struct::Struct._update", "struct::Struct._from_buffer", "struct::Struct.__init__", "struct::Field.get_offset", "array::Array._update", "array::Array.__setitem__", "array::Array._get_offset"):
        m.func(q)
    maxlen = 3 if cx.tier == "thorough" else 2
    hs = [h for n in range(1, maxlen + 1) for h in itertools.product(list(OPS), repeat=n)]
    # C11 (refusals without side effects) and C09 (copies): the quick tier keeps the histories that END in such an operation
    focus = {"C11": ("too-long", "str-item-too-long", "str-update-other-size", "update-dict-refused-late", "array-update-refused-late"), "C09": ("copy-then-update-copy", "copy-to-other-buffer", "str-copy"),
             # C18: a hybrid object dresses its nested parts from the struct handles: nested assignment of an equal-size value
             "C18": ("nested-from-struct", "nested2-from-struct"),
             "C05": ("update-dict-refused-late", "array-update-refused-late", "str-update-other-size")}.get(cx.prop)
    if focus and cx.tier != "thorough":
        hs = [h for h in hs if h[-1] in focus]
        cx.partial = True
    from concurrent.futures import ProcessPoolExecutor

    jobs = int(os.environ.get("XOVERIF_JOBS", min(16, os.cpu_count() or 1)))
    chunks = [hs[i::jobs * 4] for i in range(jobs * 4)]
    results = []
    with ProcessPoolExecutor(max_workers=jobs) as ex:
        for part in ex.map(_worker, [(m.root, c) for c in chunks if c]):
            results.extend(part)
    errs = [(h, e) for h, f, e in results if e]
    if errs:
        cx.recog(False, None, f"SV: {len(errs)} histories cannot be evaluated, first {errs[0][0]}: {errs[0][1]}")
    cons = [(h, f) for h, f, e in results if f and f[0][1] == "construct"]
    cx.check(not cons, None, construct="construction of s1, s2, s4 (S{a: Float64[:], b: Float64[:], c}) and arr (S[:])", detail="handles agree with fresh views and read the constructor's values",
             bad_detail=cons[0][1][0][2] if cons else "", anchor="struct::Struct.__init__", sub="construct")
    if cons:
        return
    by_op = {o: [] for o in OPS}
    for h, f, e in results:
        if f:
            k, opn, b = f[0]
            by_op[opn].append((len(h), h, k, b))
    ANCH = {"nested2-from-struct": "struct::Field.__set__", "nested-from-struct": "struct::Field.__set__", "str-update": "array::Array._update", "str-copy": "array::Array._inspect_args", "str": "array::Array.__setitem__", "update": "struct::Struct._update", "array-update": "array::Array._update", "set-array-field": "array::Array._update", "set-item": "array::Array.__setitem__", "copy": "struct::Struct.__init__", "item": "array::Array.__setitem__", "too-long": "array::Array._update"}
    for o in OPS:
        anchor = [v for k, v in ANCH.items() if o.startswith(k)][0]
        n_with = sum(1 for h, f, e in results if o in h)
        if not n_with:
            continue
        fails = sorted(by_op[o], key=lambda t: (t[0], t[1]))
        if fails:
            ln, h, k, b = fails[0]
            cx.bad(None, construct=f"history {' ; '.join(h)} (step {k + 1}: {o})", detail=f"{b}  [{len(fails)} of the {n_with} histories with this operation fail at it]", anchor=anchor, sub=o)
        else:
            cx.ok(None, construct=f"{o}: {n_with} histories of length <= {maxlen} containing it", detail="kept handles = fresh views, expected values, frame", anchor=anchor, sub=o)
    cx.note(None, detail=f"{len(results)} histories of length <= {maxlen} over {len(OPS)} operations evaluated")



@rule("SVo", ["C10", "C03", "C06"], "the same histories with a whole-value update applied through ANOTHER handle of the object: the older handle still locates every part where a fresh view does, reads the expected values, and nothing outside the target changed")
def svo(cx):
    """C10 and C03 quantify over operations "through randomly chosen handles/views" / "through any handle"; C06 says that
    a write through the handle or the view "is seen through the other" (a whole-value update is a write).  A handle
    caches layout words (the positions of dynamically sized fields, the item offset table); an update of equal total
    size but another split of the parts, applied through a second handle, rewrites those words in the buffer.  Every
    history <normal operation>* ; <update through a view> of length <= 2 (thorough: 3) is evaluated and the kept (older)
    handle is checked like in SV."""
    m = cx.m
    for _mod in ('struct', 'array', 'string', 'scalar', 'typeutils'):
        m.mod(_mod)
    for q in ("struct::Struct._update", "struct::Struct._from_buffer", "struct::Field.get_offset", "array::Array._update", "array::Array._get_offset"):
        m.func(q)
    maxlen = 3 if cx.tier == "thorough" else 2
    pre = ["update-from-s2", "set-array-field", "set-item", "str-shrink-item", "str-item-fit", "str-relayout", "copy-then-update-copy"]
    hs = [tuple(p) + (o,) for n in range(0, maxlen) for p in itertools.product(pre, repeat=n) for o in OPS_OLDER]
    from concurrent.futures import ProcessPoolExecutor

    jobs = int(os.environ.get("XOVERIF_JOBS", min(16, os.cpu_count() or 1)))
    chunks = [hs[i::jobs * 2] for i in range(jobs * 2)]
    results = []
    with ProcessPoolExecutor(max_workers=jobs) as ex:
        for part in ex.map(_worker, [(m.root, c) for c in chunks if c]):
            results.extend(part)
    errs = [(h, e) for h, f, e in results if e]
    if errs:
        cx.recog(False, None, f"SVo: {len(errs)} histories cannot be evaluated, first {errs[0][0]}: {errs[0][1]}")
    cons = [(h, f) for h, f, e in results if f and f[0][1] == "construct"]
    cx.need(not cons, f"SVo: construction of the zoo fails ({cons[0][1][0][2] if cons else ''}): decided by SV")
    ANCH = {"update-via-view": "struct::Struct._update", "str-relayout-via-view": "array::Array._update"}
    for o in OPS_OLDER:
        anchor = [v for k, v in ANCH.items() if o.startswith(k)][0]
        mine = [(h, f) for h, f, e in results if h[-1] == o]
        # failures AT the operation through the view (an earlier failure of a normal operation is SV's business)
        fails = sorted([(len(h), h, f[0][2]) for h, f in mine if f and f[0][1] == o], key=lambda t: (t[0], t[1]))
        early = [h for h, f in mine if f and f[0][1] != o]
        if fails:
            ln, h, b = fails[0]
            what = b.split(":", 1)[0] if ":" in b else b[:40]
            cx.bad(None, construct=f"history {' ; '.join(h)}: older handle, {what}", detail=f"{b}  [{len(fails)} of the {len(mine)} histories ending in this operation fail at it]", anchor=anchor, sub=o)
        else:
            cx.ok(None, construct=f"{o}: {len(mine) - len(early)} histories of length <= {maxlen} ending in it", detail="the older handle = a fresh view, expected values, frame", anchor=anchor, sub=o)
    cx.note(None, detail=f"{len(results)} histories evaluated")


# ------------------------------------------------------------------------------------------ L9 sibling classes as values
@rule("L9", ["C01", "C09", "C05", "C06"], "an array built from an xobject of ANOTHER array class (same shape and item type, another axis order, also under the same class name) reads back the source's elements index by index")
def l9(cx):
    """Array classes are made on demand and named after shape and item type only: `Float64[2,3]` and `Float64[2:1,3:0]`
    are two classes with one name and two memory layouts.  The constructor accepts any array-like value; for an xobject
    of a sibling class the elements must be taken over index by index (a byte image of one layout is not an image of
    the other).  Evaluated for static and dynamic shapes, Float64 and String items, C->F and F->C, stand-alone and
    as a struct field; the copy is read through a view made afresh from (buffer, offset)."""
    m = cx.m
    for _mod in ('struct', 'array', 'string', 'scalar', 'typeutils'):
        m.mod(_mod)
    m.func("array::Array._to_buffer")
    m.func("array::Array._inspect_args")
    n = 0
    cases = []
    for item in ("Float64", "String"):
        for shape in ([2, 3], [None, None], [None, 3]):
            for o_src, o_dst in (((0, 1), (1, 0)), ((1, 0), (0, 1))):
                for where in ("alone", "field"):
                    cases.append((item, shape, o_src, o_dst, where))
    if cx.tier != "thorough":
        cases = [c for c in cases if not (c[1] == [None, 3] and c[4] == "field")]
    for item, shape, o_src, o_dst, where in cases:
        n += 1
        ow = ObjWorld(m)
        I = ow.I
        label = f"{item}{shape} order {list(o_dst)} built from an object of the order-{list(o_src)} class of the same name" + (" (as a struct field)" if where == "field" else "")
        out = {}

        def thunk():
            T = I.global_lookup("scalar", "Float64") if item == "Float64" else I.global_lookup("string", "String")
            nm = "Arr" + "x".join("N" if d is None else str(d) for d in shape) + item
            B = ow.lab.array(nm, shape, o_src, T)
            A = ow.lab.array(nm, shape, o_dst, T)
            if item == "Float64":
                vals = [[1.0, 2.0, 3.0], [4.0, 5.0, 6.0]]
            else:
                vals = [["a", "bb" * 6, "c"], ["dd" * 9, "e", "ffff"]]
            b = I.call(B, [vals], {"_buffer": ow.buf("A")})
            if where == "alone":
                a = I.call(A, [b], {"_buffer": ow.buf("B")})
            else:
                S = ow.lab.struct("Holder", [("k", I.global_lookup("scalar", "Float64")), ("m", A)])
                s = I.call(S, [], {"k": 0.5, "m": b, "_buffer": ow.buf("B")})
                a = I.getattr(s, "m")
            view = ow.fresh(a)
            out["src"] = {p: v for p, _, v in ow.walk(b, "") if not p.endswith("#")}
            out["got"] = {p: v for p, _, v in ow.walk(view, "") if not p.endswith("#")}
            out["handle"] = {p: v for p, _, v in ow.walk(a, "") if not p.endswith("#")}
            out["want"] = {f"[{i},{j}]": vals[i][j] for i in range(2) for j in range(3)}

        try:
            res = I.explore(thunk, max_paths=4)
        except _Bad as e:
            cx.bad(None, construct=label, detail=f"the copy cannot be read back: {e}", anchor="array::Array._to_buffer", sub=where)
            continue
        if len(res) != 1:
            raise AnalysisError(f"[L9] {label}: {len(res)} evaluation paths ({res[0]['conds'][:2]})")
        if res[0]["exc"] is not None:
            e = res[0]["exc"]
            if e.etype in ("AttributeError", "NameError", "KeyError"):
                raise AnalysisError(f"[L9] {label} cannot be evaluated: {e.etype}: {e.msg}")
            # a refusal is not a wrong read-back (the property speaks of values written at construction)
            cx.note(None, construct=label, detail=f"construction is refused ({e.etype}: {str(e.msg)[:80]}): nothing to read back")
            continue
        cx.need(out["src"] == out["want"] or all(I._eq(out["src"].get(k), v) is True for k, v in out["want"].items()), f"[L9] {label}: the SOURCE object does not read its own values (decided by L1/SV)")
        wrong = [(k, out["got"].get(k), v) for k, v in sorted(out["want"].items()) if I._eq(out["got"].get(k), v) is not True]
        cx.check(not wrong, None, construct=label, detail="every element of the copy reads the source's element of the same index",
                 bad_detail=(f"element {wrong[0][0]} of the copy reads {wrong[0][1]!r}, the source has {wrong[0][2]!r} ({len(wrong)} of 6 elements differ): the source's bytes were taken over although its class lays them out in another order" if wrong else ""),
                 anchor="array::Array._to_buffer", sub=where)
        # C06: the handle the constructor returned and the view made afresh from (buffer, offset) read the same
        differ = [(k, out["handle"].get(k), out["got"].get(k)) for k in sorted(out["want"]) if I._eq(out["handle"].get(k), out["got"].get(k)) is not True]
        cx.check(not differ, None, construct=label + ": handle vs view", detail="the constructed handle and a view rebuilt from (buffer, offset) read the same element at every index",
                 bad_detail=(f"element {differ[0][0]}: the handle reads {differ[0][1]!r}, the view rebuilt from (buffer, offset) reads {differ[0][2]!r} ({len(differ)} of 6 differ): what the handle caches for its own class is not what the header / offset table taken over from the source says" if differ else ""),
                 anchor="array::Array._to_buffer", sub=where + ".handle-view")
    cx.floor(12, "sibling-class value cases")


@rule("UI", ["C19", "C01"], "a struct built on memory that was used before: every field left out of the arguments is written by the constructor (nothing of the previous content of the region is read back)")
def ui(cx):
    """`to_dict` leaves out the fields that equal their default and `from_dict` relies on the CONSTRUCTOR to restore
    them; a constructor restores a field only if it writes it.  A struct S{k, table: Float64[4], p: P{u, v}, tag} is
    built from arguments that name `k` only (and from none at all), at the place of an earlier object whose words are
    known non-zero numbers (an explicit integer `_offset`, or equally a freed region handed out again).  Read through a
    fresh view, no leaf of the new object may read one of the earlier object's numbers: that would be memory the
    constructor did not write.  (What the written default IS -- zero, the declared default -- is decided by HX / J*.)"""
    m = cx.m
    for _mod in ('struct', 'array', 'scalar', 'typeutils'):
        m.mod(_mod)
    m.func("struct::Struct._to_buffer")
    m.func("array::Array._to_buffer")
    n = 0
    for label, kw in (("S(k=0.5)", {"k": 0.5}), ("S()", {}), ("S(k=0.5, p={'u': 1.5})", {"k": 0.5, "p": {"u": 1.5}})):
        ow = ObjWorld(m)
        I = ow.I
        out = {}
        poison = [11.0, 12.0, 13.0, 14.0, 15.0, 16.0, 17.0, 18.0]

        def thunk():
            F = I.global_lookup("scalar", "Float64")
            A4 = ow.lab.array("Arr4Float64", [4], (0,), F)
            Old = ow.lab.struct("Old", [(f"a{i}", F) for i in range(8)])  # (scalar fields: each word is a tracked store)
            Pc = ow.lab.struct("P", [("u", F), ("v", F)])
            S = ow.lab.struct("S", [("k", F), ("table", A4), ("p", Pc), ("tag", F)])
            old = I.call(Old, [], dict({f"a{i}": v for i, v in enumerate(poison)}, _buffer=ow.buf("A")))
            s = I.call(S, [], dict(kw, _buffer=ow.buf("A"), _offset=I.getattr(old, "_offset")))
            view = ow.fresh(s)
            out["got"] = {p: v for p, _, v in ow.walk(view, "") if not p.endswith("#")}

        try:
            res = I.explore(thunk, max_paths=4)
        except _Bad as e:
            raise AnalysisError(f"[UI] {label}: the new object cannot be read back: {e}")
        if len(res) != 1:
            raise AnalysisError(f"[UI] {label}: {len(res)} evaluation paths")
        if res[0]["exc"] is not None:
            e = res[0]["exc"]
            raise AnalysisError(f"[UI] {label} on used memory cannot be evaluated: {e.etype}: {e.msg}")
        n += 1
        given = {".k"} | ({".p.u"} if "p" in kw else set())
        stale = [(k, v) for k, v in sorted(out["got"].items()) if k not in given and any(I._eq(v, p) is True for p in poison)]
        cx.need(len(out["got"]) == 8, f"[UI] {label}: {len(out['got'])} leaves read, expected 8")
        cx.check(not stale, None, construct=f"{label} at the place of an earlier object of eight numbers 11.0 .. 18.0", detail="every leaf that the arguments leave out is written by the constructor: none reads a number of the earlier object",
                 bad_detail=(f"{stale[0][0]} reads {stale[0][1]!r}, a word of the object that lay there before ({len(stale)} leaves do): the field is left out of the arguments and the constructor does not write it -- from_dict of a dictionary in which to_dict elided the field (equal to its default) rebuilds another object when the memory was used before" if stale else ""),
                 anchor="struct::Struct._to_buffer", sub="stale")
    cx.floor(3, "constructions on used memory")
