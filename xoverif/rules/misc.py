"""Misuse table of C11, reference rules of C08, locator rules of C10, fresh-allocation rule of C09."""
import ast

from ..core import rule
from ..flow import Flow, atoms
from ..linear import Defs, Lin, Poly
from ..srcmodel import AnalysisError, call_name, get_arg, norm, own_nodes, param_names, short


# ------------------------------------------------------------------------------------------ C11 table
@rule("R11a", ["C11"], "allocate_on_buffer, evaluated: offset without buffer and foreign-context buffer refused before anything is created or allocated; placement modes; explicit offsets used as given")
def r11a(cx):
    m = cx.m
    # ---- allocate_on_buffer (evaluated on recording contexts/buffers)
    from ..peval import Interp, Obj as _Obj, Opaque as _Op, Builtin as _B, Sym as _Sym
    from ..linear import Poly as _Poly
    f = m.func("typeutils::allocate_on_buffer")
    pn = param_names(f)
    cx.need(pn == ["size", "context", "buffer", "offset"], "allocate_on_buffer: unexpected signature")
    SIZE = _Sym(_Poly.atom("size"))
    USER = _Sym(_Poly.atom("user_offset"))

    def world():
        I = Interp(m)
        log = []

        def mkbuf(ctx, tag):
            b_ = _Obj("instance", {"context": ctx}, name=tag)

            def allocate(*a, **k):
                sz = a[0] if a else k.get("size")
                al = a[1] if len(a) > 1 else k.get("align", k.get("alignment", "default"))
                log.append(("allocate", b_, sz, al))
                return _Sym(_Poly.atom(f"alloc{len(log)}"))

            b_.attrs["allocate"] = _B("buffer.allocate", allocate)
            return b_

        def mkctx(tag):
            c_ = _Obj("instance", {}, name=tag)

            def new_buffer(*a, **k):
                sz = a[0] if a else k.get("capacity", k.get("size"))
                nb_ = mkbuf(c_, f"newbuf@{tag}")
                log.append(("new_buffer", c_, sz, nb_))
                return nb_

            c_.attrs["new_buffer"] = _B("context.new_buffer", new_buffer)
            return c_

        cd, ca, cb = mkctx("default"), mkctx("A"), mkctx("B")
        I.modglobals.setdefault("typeutils", {})["context_default"] = cd
        return I, log, cd, ca, cb, mkbuf

    def run(ctx_sel, buf_sel, offset):
        I, log, cd, ca, cb, mkbuf = world()
        ctx = {"none": None, "A": ca, "B": cb}[ctx_sel]
        buf = None if buf_sel == "none" else mkbuf(ca, "bufOfA")
        fv = I.global_lookup("typeutils", "allocate_on_buffer")
        res = I.explore(lambda: I.call(fv, [SIZE], {"context": ctx, "buffer": buf, "offset": offset}), max_paths=8)
        cx.recog(len(res) == 1, f, f"allocate_on_buffer(context={ctx_sel}, buffer={buf_sel}, offset={offset!r}): {len(res)} paths")
        return res[0], log, cd, ca, cb, buf

    ncase = 0
    for off in (7, "aligned", "packed", USER):
        r, log, *_ = run("A", "none", off)
        ncase += 1
        cx.check(r["exc"] is not None and not log, None, construct=f"allocate_on_buffer(size, context, buffer=None, offset={off!r})", detail="explicit offset without a buffer is refused before a buffer is created",
                 bad_detail=("an offset without a buffer is accepted" if r["exc"] is None else "a buffer is created / space allocated before the refusal"), anchor="typeutils::allocate_on_buffer")
    for off in (None, "aligned", "packed", USER):
        r, log, *_ = run("B", "bufOfA", off)
        ncase += 1
        cx.check(r["exc"] is not None and not log, None, construct=f"allocate_on_buffer(size, context=B, buffer of context A, offset={off!r})", detail="a buffer that belongs to a different context is refused before anything is allocated on it",
                 bad_detail=("a buffer of another context is accepted" if r["exc"] is None else "space is allocated before the refusal"), anchor="typeutils::allocate_on_buffer")
    WANT_AL = {None: ("default", True), "aligned": (True,), "packed": (False,)}
    for ctx_sel in ("none", "A"):
        for off in (None, "aligned", "packed", USER):
            r, log, cd, ca, cb, buf = run(ctx_sel, "bufOfA", off)
            ncase += 1
            why = ""
            if r["exc"] is not None:
                why = f"refused with {r['exc'].etype}"
            else:
                rb, ro = r["result"] if isinstance(r["result"], tuple) and len(r["result"]) == 2 else (None, None)
                if rb is not buf:
                    why = "does not return the given buffer"
                elif off is USER:
                    if log or ro is not USER and ro != USER:
                        why = f"an explicit offset is not used as given (effects {[(x[0], x[2:]) for x in log]}, returned {ro!r})"
                else:
                    al = [x for x in log if x[0] == "allocate"]
                    if len(al) != 1 or len(log) != 1 or al[0][1] is not buf or al[0][2] != SIZE or al[0][3] not in WANT_AL[off] or ro is None or repr(ro) != f"alloc1":
                        why = f"placement mode {off!r}: effects {[(x[0], x[2:]) for x in log]}, returned offset {ro!r}; needed one allocate(size{'' if off is None else ', align=' + str(WANT_AL[off][0])}) on the given buffer and its result"
            cx.check(not why, None, construct=f"allocate_on_buffer(size, context={'None' if ctx_sel == 'none' else 'A'}, buffer of A, offset={off!r})", detail="default/aligned/packed placements allocate exactly `size` bytes; an explicit offset is used as given",
                     bad_detail=why, anchor="typeutils::allocate_on_buffer", sub="modes")
    for ctx_sel in ("none", "A"):
        r, log, cd, ca, cb, buf = run(ctx_sel, "none", None)
        ncase += 1
        wantc = cd if ctx_sel == "none" else ca
        why = ""
        if r["exc"] is not None:
            why = f"refused with {r['exc'].etype}"
        else:
            nbs = [x for x in log if x[0] == "new_buffer"]
            als = [x for x in log if x[0] == "allocate"]
            rb, ro = r["result"] if isinstance(r["result"], tuple) and len(r["result"]) == 2 else (None, None)
            if len(nbs) != 1 or nbs[0][1] is not wantc:
                why = f"no single new buffer on the {'default' if ctx_sel == 'none' else 'given'} context"
            elif len(als) != 1 or als[0][1] is not nbs[0][3] or als[0][2] != SIZE or log.index(nbs[0]) > log.index(als[0]):
                why = "the new buffer is not the one `size` bytes are allocated on"
            elif rb is not nbs[0][3] or repr(ro) != "alloc2":
                why = f"returns {rb!r}, {ro!r}, not the new buffer and the allocated position"
        cx.check(not why, None, construct=f"allocate_on_buffer(size, context={'None' if ctx_sel == 'none' else 'A'}, buffer=None): new buffer on the context, allocate(size) on it", detail="fresh buffer, then the allocation",
                 bad_detail=why, anchor="typeutils::allocate_on_buffer", sub="modes")
    cx.need(ncase >= 18, f"only {ncase} allocate_on_buffer cases")
    cx.note(None, detail="(the remaining misuse classes are rule R11)")


@rule("R11", ["C11"], "each documented misuse has a raising guard that dominates the effect it must prevent (diagnostic shapes for Array._update / construction / unions)")
def r11(cx):
    m = cx.m
    # ---- Array._update: length comparison, both arms of the mismatch raise
    f = m.func("array::Array._update")
    fl = Flow(f)
    writes = [c for c in own_nodes(f) if isinstance(c, ast.Call) and call_name(c) == "_to_buffer"]
    cx.need(len(writes) == 1, "Array._update: single write expected")
    w = writes[0]
    lin = Lin(Defs(f).resolver())
    eq = None
    for c in fl.conds_at(w):
        fk = lin.fact(c.test, c.pol)
        if fk and fk[0] == "==0" and "len(self)" in fk[1].atoms():
            eq = c
    cx.check(eq is not None, w, construct=f"write under {eq.text() if eq else '?'}", detail="the rewrite happens only for a value of the same length", bad_detail="Array._update writes without a length equality test", sub="update-len")
    if eq is not None:
        iff = None
        for s in f.body:
            if isinstance(s, ast.If) and s.test is eq.test:
                iff = s
        from ..flow import func_exits

        cx.check(iff is not None and bool(iff.orelse) and func_exits(iff.orelse) and all(isinstance(x, ast.Raise) for x in ast.walk(ast.Module(body=iff.orelse, type_ignores=[])) if isinstance(x, (ast.Raise, ast.Return))), iff or f,
                 construct="else: raise (for integer and sequence values)", detail="every other length is refused", bad_detail="a length mismatch does not raise on every path", sub="update-len")
    def _shape_neq(c):
        t = c.test
        if not (isinstance(t, ast.Compare) and len(t.ops) == 1 and "shape" in norm(t.left) + norm(t.comparators[0]) and "self._shape" in norm(t)):
            return False
        return (isinstance(t.ops[0], ast.NotEq) and c.pol) or (isinstance(t.ops[0], ast.Eq) and not c.pol)

    shp = [r for r in own_nodes(f) if isinstance(r, ast.Raise) and any(_shape_neq(c) for c in fl.conds_at(r))]
    cx.check(len(shp) == 1 and fl.ordered_before(shp[0], w), shp[0] if shp else f, construct="shape of the new value != self._shape -> raise, before the write", detail="equal length but different shape is refused",
             bad_detail="a value of equal length but different shape is written over the header (no shape comparison precedes the write)", sub="update-shape")
    # ---- Array._inspect_args: shape validation is decided by evaluation (rule R13: every array descriptor x array-like
    # values of another shape / rank / too many arguments must be refused before anything is written)
    gs = m.func("array::get_shape_from_array")
    rr = [r for r in own_nodes(gs) if isinstance(r, ast.Raise)]
    fl2 = Flow(gs)
    cx.recog(len(rr) >= 1, gs, "get_shape_from_array: refusal of ragged nested sequences")
    ragged = [r for r in rr if any(isinstance(c.test, ast.Compare) and isinstance(c.test.ops[0], (ast.NotEq, ast.Eq)) and "shape" in norm(c.test) for c in fl2.conds_at(r))]
    cx.recog(len(ragged) >= 1, gs, "get_shape_from_array: comparison of the sub-shapes of a nested sequence")
    cx.ok(ragged[0], construct="ragged nested sequences -> raise", detail="inconsistent sub-shapes are refused", sub="shape")


@rule("R11u", ["C11"], "union membership (diagnostic): lookups raise after exhausting _reftypes, the writer refuses non-members before writing")
def r11u(cx):
    m = cx.m
    # ---- union membership
    mu = m.cls("ref::MetaUnionRef")
    ms = m.methods(mu)
    for name in ("_typeid_from_type", "_typeid_from_name", "_type_from_name", "_type_from_typeid"):
        fn = ms[name]
        last = fn.body[-1]
        loops = [l for l in fn.body if isinstance(l, ast.For)]
        ok = isinstance(last, ast.Raise) and len(loops) == 1 and "cls._reftypes" in norm(loops[0].iter) and "TypeError" in norm(last.exc)
        cx.check(ok, last, construct=f"{name}: for ... in cls._reftypes: ... ; raise TypeError", detail="a non-member is refused after exhausting the member list", bad_detail=f"{name} does not raise after scanning all members", sub="union")
    uw = ms["_to_buffer"]
    fl = Flow(uw)
    rs = [r for r in own_nodes(uw) if isinstance(r, ast.Raise)]
    writes = [c for c in own_nodes(uw) if isinstance(c, ast.Call) and call_name(c) == "_array_to_buffer"]
    ok = len(rs) == 1 and any(c.text() == "not (cls._is_member(value))" for c in fl.conds_at(rs[0])) and writes and all(not fl.may_follow(w_, rs[0]) for w_ in writes)
    cx.check(ok, rs[0] if rs else uw, construct="value that is no member (and no tuple/None) -> raise, before the two-word write", detail="non-members are refused before the slot is written", bad_detail="the union writer does not refuse non-members before writing", sub="union")
    im = ms["_is_member"]
    src = norm(im)
    cx.check("for tt in cls._reftypes" in src and "tt.__name__ == typ.__name__" in src and "return False" in src, im, construct="_is_member: name match against every member, else False", detail="membership by member type name", bad_detail="_is_member does not scan all members by name", sub="union")
    for name in ("_typeid_from_type", "_typeid_from_name", "_type_from_typeid"):
        fn = ms[name]
        lp = [l for l in fn.body if isinstance(l, ast.For)][0]
        ok = norm(lp.iter) == "enumerate(cls._reftypes)"
        cx.check(ok, lp, construct=f"{name}: ids are positions in cls._reftypes", detail="one id space for writer, reader and the C enum", bad_detail=f"{name} does not enumerate cls._reftypes from 0", sub="ids")


# ------------------------------------------------------------------------------------------ C08
@rule("R08", ["C08", "C05"], "null encoding: writers store the reserved constants, readers test them before any arithmetic")
def r08(cx):
    m = cx.m
    nv = m.module_assign("ref", "NULLVALUE")
    nt = m.module_assign("ref", "NULLTYPE")
    nr = m.module_assign("ref", "NULLREF")
    lin = Lin()
    cx.check(lin.poly(nv) == Poly.const(-(2**63)), nv, construct=f"NULLVALUE = {norm(nv)}", detail="reserved null offset is -2**63", bad_detail="NULLVALUE is not -2**63 (the documented reserved value)")
    cx.check(lin.poly(nt) == Poly.const(-1), nt, construct=f"NULLTYPE = {norm(nt)}", detail="null member index is -1", bad_detail="NULLTYPE is not -1")
    ok = isinstance(nr, ast.Call) and call_name(nr) == "array" and isinstance(nr.args[0], ast.List) and [norm(e) for e in nr.args[0].elts] == ["NULLVALUE", "NULLTYPE"] and "int64" in norm(nr)
    cx.check(ok, nr, construct=f"NULLREF = {short(nr)}", detail="two int64 words [offset, typeid] in the documented order", bad_detail="NULLREF is not int64 [NULLVALUE, NULLTYPE]")
    # Ref writer
    f = m.func("ref::Ref._to_buffer")
    fl = Flow(f)
    d = Defs(f)
    vname = param_names(f)[3]
    wr = [c for c in own_nodes(f) if isinstance(c, ast.Call) and call_name(c) == "_to_buffer" and norm(c.func.value) == "Int64"]
    cx.need(len(wr) == 1 and len(wr[0].args) == 3, "Ref._to_buffer: the single Int64 word write not found")
    cx.check(norm(wr[0].args[0]) == "buffer" and norm(wr[0].args[1]) == "offset", wr[0], construct=short(wr[0]), detail="one 8-byte word at the slot", bad_detail="the reference word is not written at (buffer, offset)", sub="ref-write")
    word = norm(wr[0].args[2])
    defs = d.defs_of(word)
    nulls = [(v, st) for v, st in defs if v is not None and norm(v) == "NULLVALUE"]
    ok = len(nulls) == 1 and any(c.text() == f"{vname} is None" for c in fl.conds_at(nulls[0][1]))
    cx.check(ok, nulls[0][1] if nulls else f, construct="value is None -> NULLVALUE", detail="assigning nothing stores the reserved null", bad_detail="None is not encoded as NULLVALUE", sub="ref-null")
    lin2 = Lin()
    for v, st in defs:
        if v is None or norm(v) == "NULLVALUE":
            continue
        p = lin2.poly(v)
        rel = p.coeff("offset") == -1 and len(p.t) == 2 and p.const_value() == 0 and any(a.endswith("._offset") and p.coeff(a) == 1 for a in p.atoms())
        cx.check(rel, st, construct=short(st), nf=repr(p), detail="stored word = target offset - own slot offset", bad_detail=f"stored word is {p!r}: not relative to the reference's own slot (breaks when the holder is not at offset 0)", sub="ref-rel")
    # Ref reader
    f = m.func("ref::Ref._from_buffer")
    fl = Flow(f)
    rd = [s for s in own_nodes(f) if isinstance(s, ast.Assign) and isinstance(s.value, ast.Call) and call_name(s.value) == "_from_buffer" and norm(s.value.func.value) == "Int64"]
    cx.need(len(rd) == 1, "Ref._from_buffer: the word read not found")
    w = norm(rd[0].targets[0])
    cx.check([norm(a) for a in rd[0].value.args] == ["buffer", "offset"], rd[0], construct=short(rd[0]), detail="reads the word at the slot", bad_detail="the reference word is not read at (buffer, offset)", sub="ref-read")
    nones = [r for r in own_nodes(f) if isinstance(r, ast.Return) and norm(r.value) == "None"]
    ok = len(nones) == 1 and any(c.text() == f"{w} == NULLVALUE" for c in fl.conds_at(nones[0]))
    arith = [s for s in own_nodes(f) if isinstance(s, ast.AugAssign) and norm(s.target) == w]
    for s in arith:
        ok = ok and not fl.ordered_before(s, nones[0]) if nones else False
    cx.check(ok, nones[0] if nones else f, construct=f"if {w} == NULLVALUE: return None (before adding the slot offset)", detail="null is recognised on the raw stored word", bad_detail="the null test is missing or happens after arithmetic on the stored word", sub="ref-null")
    fin = [r for r in own_nodes(f) if isinstance(r, ast.Return) and isinstance(r.value, ast.Call) and call_name(r.value) == "_from_buffer"]
    cx.need(len(fin) == 1, "Ref._from_buffer: target materialisation not found")
    tgt = fin[0].value
    # absolute = stored + offset
    pos = tgt.args[1]
    abs_ok = False
    if isinstance(pos, ast.Name) and pos.id == w and len(arith) == 1 and isinstance(arith[0].op, ast.Add) and norm(arith[0].value) == "offset":
        abs_ok = True
    else:
        p = lin2.poly(pos)
        abs_ok = p == Poly.atom(w) + Poly.atom("offset") and not arith
    cx.check(abs_ok and norm(tgt.func.value) == "self._reftype" and norm(tgt.args[0]) == "buffer", fin[0], construct=f"{short(fin[0])} with {w} + offset", detail="target = own slot offset + stored word, in the same buffer, of the declared type",
             bad_detail="the reader does not resolve slot offset + stored word in the same buffer", sub="ref-abs")
    # Union reader(s)
    for spec, base in (("ref::MetaUnionRef._from_buffer", "offset"), ("ref::UnionRef.get", "self._offset")):
        f = m.func(spec)
        fl = Flow(f)
        rd = [s for s in own_nodes(f) if isinstance(s, ast.Assign) and isinstance(s.value, ast.Call) and call_name(s.value) == "_array_from_buffer"]
        cx.need(len(rd) == 1 and isinstance(rd[0].targets[0], ast.Tuple) and len(rd[0].targets[0].elts) == 2, f"{spec}: two-word read not found")
        ro, ti = [norm(e) for e in rd[0].targets[0].elts]
        a = [norm(x) for x in rd[0].value.args]
        cx.check(a[1] == base and a[2] == "2", rd[0], construct=short(rd[0]), detail="reads [offset word, member index] at the slot", bad_detail="the union words are not read as two words at the slot", sub="union-read")
        nones = [r for r in own_nodes(f) if isinstance(r, ast.Return) and norm(r.value) == "None"]
        ok = len(nones) == 1 and any(c.text() == f"{ro} == NULLVALUE" for c in fl.conds_at(nones[0]))
        cx.check(ok, nones[0] if nones else f, construct=f"if {ro} == NULLVALUE: return None", detail="null union reads back as None", bad_detail="null union reference is not recognised on the first word", sub="union-null")
        fin = [r for r in own_nodes(f) if isinstance(r, ast.Return) and isinstance(r.value, ast.Call) and call_name(r.value) == "_from_buffer"]
        cx.need(len(fin) == 1, f"{spec}: member materialisation not found")
        d = Defs(f)
        lin3 = Lin(d.resolver())
        p = lin3.poly(fin[0].value.args[1])
        typ = fin[0].value.func.value
        tdef = d.single(typ.id) if isinstance(typ, ast.Name) else None
        t_ok = tdef is not None and norm(tdef) == f"cls._type_from_typeid({ti})"
        cx.check(p == Poly.atom(base) + Poly.atom(ro) and t_ok, fin[0], construct=f"{short(fin[0])}", nf=repr(p), detail="member of the recorded type at slot + stored word",
                 bad_detail="the union reader does not resolve (recorded member type, slot + first word)", sub="union-abs")
    # Union writer
    f = m.func("ref::MetaUnionRef._to_buffer")
    fl = Flow(f)
    ws = [c for c in own_nodes(f) if isinstance(c, ast.Call) and call_name(c) == "_array_to_buffer"]
    cx.need(len(ws) == 2, "union writer: expected the null write and the reference write")
    d = Defs(f)
    for w_ in ws:
        cx.check(norm(w_.args[0]) == "buffer" and norm(w_.args[1]) == "offset", w_, construct=short(w_), detail="two words at the slot", bad_detail="union words are not written at (buffer, offset)", sub="union-write")
        val = w_.args[2]
        if norm(val) == "NULLREF":
            cx.check(any(c.text() == "xobj is None" for c in fl.conds_at(w_)), w_, construct="xobj is None -> NULLREF", detail="null union = [NULLVALUE, -1]", bad_detail="NULLREF is not written exactly for a null target", sub="union-null")
        else:
            v = d.single(val.id) if isinstance(val, ast.Name) else val
            ok = isinstance(v, ast.Call) and call_name(v) == "array" and isinstance(v.args[0], ast.List) and len(v.args[0].elts) == 2
            if ok:
                e0, e1 = v.args[0].elts
                p = Lin().poly(e0)
                ok = p == Poly.atom("xobj._offset") - Poly.atom("offset") and norm(e1) == "typeid"
            cx.check(ok, w_, construct=f"[{norm(v.args[0].elts[0]) if ok else '?'}, typeid]", detail="[target offset - slot offset, member index]", bad_detail="the union words are not [xobj._offset - offset, typeid]", sub="union-rel")
    # R3: recorded member id and constructed/aliased member derive from the same key
    pairs = 0
    for st in own_nodes(f):
        if isinstance(st, ast.Assign) and norm(st.targets[0]) == "typeid" and isinstance(st.value, ast.Call):
            key = norm(st.value.args[0])
            fn_ = call_name(st.value)
            blk = st.parent.body if st in getattr(st.parent, "body", []) else getattr(st.parent, "orelse", [])
            typ_defs = [s for s in blk if isinstance(s, ast.Assign) and norm(s.targets[0]) == "typ"]
            cx.need(len(typ_defs) == 1, "union writer: `typ` definition next to `typeid` not found")
            tv = norm(typ_defs[0].value)
            if fn_ == "_typeid_from_type":
                ok = key == "typ" and tv == "xobj.__class__"
            else:
                ok = fn_ == "_typeid_from_name" and tv == f"cls._type_from_name({key})"
            pairs += 1
            cx.check(ok, st, construct=f"typ = {tv} ; typeid = {norm(st.value)}", detail="recorded member index and member class come from one key", bad_detail="the recorded member index is derived from another key than the constructed/aliased member", sub="member")
    cx.need(pairs >= 3, "union writer: expected 3 (typ, typeid) pairs")


# ------------------------------------------------------------------------------------------ C10
@rule("R10", ["C10", "C06"], "get, set and offset-of share one locator; compounds are updated in place through their own _update")
def r10(cx):
    m = cx.m
    forms = {}
    for name in ("__getitem__", "__setitem__", "_get_offset"):
        f = m.func(f"array::Array.{name}")
        fl = Flow(f)
        lin = Lin()
        for st in own_nodes(f):
            if isinstance(st, ast.Assign) and norm(st.targets[0]) == "offset" and not (isinstance(st.value, ast.Call) and norm(st.value.func) == "self._get_offset"):
                arm = "table" if any(c.text() == "hasattr(self, '_offsets')" for c in fl.conds_at(st)) else "stride"
                forms.setdefault(arm, {})[name] = (lin.poly(st.value), st)
    # an accessor that obtains its offset from self._get_offset(index) shares that locator by construction
    for name in ("__getitem__", "__setitem__"):
        f = m.func(f"array::Array.{name}")
        if not any(name in forms.get(a, {}) for a in ("table", "stride")):
            dele = [st for st in own_nodes(f) if isinstance(st, ast.Assign) and norm(st.targets[0]) == "offset" and isinstance(st.value, ast.Call) and norm(st.value.func) == "self._get_offset"]
            cx.recog(bool(dele), f, f"Array.{name}: index -> offset computation (inline or through self._get_offset)")
            for arm in ("table", "stride"):
                if arm in forms and "_get_offset" in forms[arm]:
                    forms[arm][name] = (forms[arm]["_get_offset"][0], dele[0])
    for arm in ("table", "stride"):
        cx.need(arm in forms and len(forms[arm]) == 3, f"Array locators: {arm} arm not found in all three accessors")
        ref = forms[arm]["__getitem__"][0]
        for name, (p, st) in forms[arm].items():
            cx.check(p == ref, st, construct=f"Array.{name} [{arm}]: offset = {short(st.value, 90)}", nf=repr(p), detail="same index -> offset form as __getitem__",
                     bad_detail=f"locator differs from __getitem__'s ({ref!r}): reads and writes of one index address different bytes")
    want_t = Poly.atom("self._offset") + Poly.atom("self._offsets[index]")
    want_s = Poly.atom("self._offset") + Poly.atom("cls._data_offset") + Poly.atom("get_offset(index, self._strides)")
    cx.check(forms["table"]["__getitem__"][0] == want_t, forms["table"]["__getitem__"][1], construct="table arm = self._offset + self._offsets[index]", detail="item offsets are relative to the array start", bad_detail="cached item offsets are not added to the array's own offset", sub="form")
    cx.check(forms["stride"]["__getitem__"][0] == want_s, forms["stride"]["__getitem__"][1], construct="stride arm = self._offset + cls._data_offset + sum(i*stride)", detail="documented address expression", bad_detail="stride locator is not offset + data offset + sum(index*stride)", sub="form")
    go = m.func("array::get_offset")
    r = [x for x in own_nodes(go) if isinstance(x, ast.Return)]
    ok = len(r) == 1 and norm(r[0].value) in ("sum((ii * ss for ii, ss in zip(idx, strides)))",)
    cx.check(ok, r[0] if r else go, construct=short(r[0]) if r else "?", detail="sum of index*stride over all axes", bad_detail="get_offset is not sum(i*s for i, s in zip(idx, strides))", sub="form")
    # the reader materialises the item type at the located offset
    gi = m.func("array::Array.__getitem__")
    r = [x for x in own_nodes(gi) if isinstance(x, ast.Return)]
    cx.check(len(r) == 1 and norm(r[0].value) == "cls._itemtype._from_buffer(self._buffer, offset)", r[0] if r else gi, construct=short(r[0]) if r else "?", detail="item view at the located offset of the same buffer", bad_detail="__getitem__ does not view the item at the located offset", sub="read")
    # Field get/set share get_offset
    for name in ("__get__", "__set__"):
        f = m.func(f"struct::Field.{name}")
        calls = [c for c in own_nodes(f) if isinstance(c, ast.Call) and call_name(c) == "get_offset" and norm(c.func.value) == "self"]
        cx.check(len(calls) >= 1 or (name == "__set__" and "self.__get__(instance)" in norm(f)), f, construct=f"Field.{name} locates through Field.get_offset", detail="one field locator", bad_detail=f"Field.{name} does not use Field.get_offset", sub="field")
    fg = m.func("struct::Field.__get__")
    r = [x for x in own_nodes(fg) if isinstance(x, ast.Return) and isinstance(x.value, ast.Call)]
    cx.check(len(r) == 1 and norm(r[0].value) == "ftype._from_buffer(instance._buffer, offset)", r[0] if r else fg, construct=short(r[0]) if r else "?", detail="field view at the located offset", bad_detail="Field.__get__ does not view the field at the located offset", sub="field")
    go = m.func("struct::Field.get_offset")
    fl = Flow(go)
    d = Defs(go)
    rel = {}
    for v, st in d.defs_of("reloffset"):
        key = "ref" if any(c.text() == "self.is_reference" for c in fl.conds_at(st)) else "static"
        rel[key] = norm(v)
    r = [x for x in own_nodes(go) if isinstance(x, ast.Return)]
    if set(rel) == {"ref", "static"} and len(r) == 1:
        ok = rel == {"ref": "instance._offsets[self.index]", "static": "self.offset"}
        cx.check(ok, go, construct=f"get_offset: reloffset = {rel}", detail="offset-table fields use the cached table entry keyed by field index, the others their class offset", bad_detail="field locator does not use (cached table[index] | class offset)", sub="field")
        ok = isinstance(r[0].value, ast.Tuple) and Lin().poly(r[0].value.elts[1]) == Poly.atom("instance._offset") + Poly.atom("reloffset")
        cx.check(ok, r[0], construct=short(r[0]), detail="absolute = struct offset + relative offset", bad_detail="field locator does not add the struct's own offset", sub="field")
    else:
        cx.note(go, construct="Field.get_offset has another shape than the two-arm `reloffset` skeleton", detail="the positions it yields are decided by rule L2 (every field pattern, evaluated against the documented layout)")
    # R2: dispatch on _update
    for spec, tvar in (("struct::Field.__set__", "self.ftype"), ("array::Array.__setitem__", "cls._itemtype")):
        f = m.func(spec)
        fl = Flow(f)
        ups = [c for c in own_nodes(f) if isinstance(c, ast.Call) and call_name(c) == "_update"]
        wrs = [c for c in own_nodes(f) if isinstance(c, ast.Call) and call_name(c) == "_to_buffer"]
        if not (len(ups) == 1 and len(wrs) == 1):
            # another shape of the dispatch: decided per kind of part by rule R12 (evaluation of the assignment)
            cx.note(f, construct=f"{spec.split('::')[1]}: dispatch has another shape than one _update arm and one _to_buffer arm", detail="decided by rule R12")
            continue
        t = f"hasattr({tvar}, '_update')"
        ok = any(c.text() == t for c in fl.conds_at(ups[0])) and any(c.text() == f"not ({t})" for c in fl.conds_at(wrs[0]))
        cx.check(ok, ups[0], construct=f"{spec.split('::')[1]}: {t} -> in-place _update, else _to_buffer at the located offset", detail="compounds keep their headers: only their own _update rewrites them",
                 bad_detail="a type that has _update is rewritten with a fresh _to_buffer (headers/offsets of the nested object are re-planned)", sub="dispatch")
        base = norm(ups[0].func.value)
        cx.check(base in ("self.__get__(instance)", "self[index]"), ups[0], construct=f"{base}._update(value)", detail="update acts on the located element", bad_detail="in-place update is not applied to the located element", sub="dispatch")
        cx.check(norm(wrs[0].args[0]) in ("instance._buffer", "self._buffer") and norm(wrs[0].args[1]) == "offset" and norm(wrs[0].args[2]) == "value", wrs[0], construct=short(wrs[0]), detail="value written at the located offset of the same buffer", bad_detail="write does not target (own buffer, located offset, value)", sub="dispatch")


@rule("R10r", ["C10", "C06"], "cached part offsets of a kept handle are re-read from the buffer after every rewrite that can move parts")
def r10r(cx):
    m = cx.m
    # R3: cached part offsets are re-read from the buffer after every rewrite that can move parts
    au = m.func("array::Array._update")
    fl = Flow(au)
    wr = [c for c in own_nodes(au) if isinstance(c, ast.Call) and call_name(c) == "_to_buffer"]
    ref = [s_ for s_ in own_nodes(au) if isinstance(s_, ast.Assign) and norm(s_.targets[0]) == "self._offsets"]
    okr = False
    why = "Array._update rewrites an array of dynamically sized items but never refreshes self._offsets: a kept handle addresses the old item positions"
    for s_ in ref:
        v = norm(s_.value)
        after = wr and fl.ordered_before(wr[0], s_)
        if ("_from_buffer(" in v or "_array_from_buffer(" in v) and after:
            okr = True
        elif "info.offsets" in v:
            why = "the cache is refreshed from the plan (info.offsets), but _to_buffer's binary-copy arm writes the SOURCE array's offset table: a same-class value whose items carry spare capacity leaves the handle with wrong item offsets"
    cx.check(okr, ref[0] if ref else au, construct="Array._update: self._offsets re-read from the buffer after the rewrite", detail="a kept handle sees the item positions that were actually written", bad_detail=why, sub="refresh")
    su = m.func("struct::Struct._update")
    fl = Flow(su)
    cps = [c for c in own_nodes(su) if isinstance(c, ast.Call) and call_name(c) == "update_from_xbuffer"]
    for c in cps:
        refreshed = False
        for s_ in own_nodes(su):
            if not (isinstance(s_, ast.Assign) and fl.ordered_before(c, s_)):
                continue
            tgt = norm(s_.targets[0])
            fills = []  # statements that compute the refreshed offsets from the buffer
            if tgt.startswith("self._offsets") and "_from_buffer(" in norm(s_.value):
                fills = [s_]
            elif tgt == "self._offsets" and isinstance(s_.value, ast.Name):
                # rebinding through a local container: fresh dict filled from the buffer before the rebinding
                loc = s_.value.id
                fills = [x for x in own_nodes(su) if isinstance(x, ast.Assign) and isinstance(x.targets[0], ast.Subscript) and norm(x.targets[0].value) == loc
                         and "_from_buffer(" in norm(x.value) and fl.ordered_before(c, x) and fl.ordered_before(x, s_)]
            for x in fills:
                same_arm = {id(y.test) for y in fl.conds_at(c)} <= {id(y.test) for y in fl.conds_at(x)} and {id(y.test) for y in fl.conds_at(c)} <= {id(y.test) for y in fl.conds_at(s_)}
                loops = fl.loops_at(x)
                full = (not loops) or norm(loops[-1].iter) in ("self._d_fields", "self._fields")
                if same_arm and full:
                    refreshed = True
        cx.check(refreshed, c, construct="Struct._update: after the binary copy the cached offsets of the dynamic fields are re-read from the buffer", detail="a struct of equal size may lay out its dynamic fields differently",
                 bad_detail="after byte-copying another instance the handle keeps the offsets of the OLD layout: reading a dynamic field through the same handle addresses wrong bytes", sub="refresh")
    src = norm(su)
    if "for field in self._fields" in src and "if field.name in value" in src and "field.__set__(self, value[field.name])" in src:
        cx.ok(su, construct="Struct._update: field-wise through Field.__set__ for the keys present", detail="only named fields change, each through its own setter", sub="struct")
    else:
        cx.note(su, construct="Struct._update: the field-wise arm has another shape", detail="decided by rule R15 (evaluation of a partial update)")


# ------------------------------------------------------------------------------------------ C09.R2
@rule("R09", ["C09"], "constructors allocate before writing and write into that fresh allocation")
def r09(cx):
    m = cx.m
    # evaluated: each constructor is run on the abstract memory; it must allocate exactly once, the planned size, before
    # anything is written, write only inside that allocation, and leave the new object viewing it -- also when the value
    # is an existing object living elsewhere (the copy goes to the fresh allocation, never to the source's location)
    from .layout import Lab, pol
    from ..peval import Opaque as _Op, Sym as _Sym, PyExc as _PyExc
    from ..linear import Poly as _Poly
    for spec in ("struct::Struct.__init__", "array::Array.__init__", "ref::UnionRef.__init__", "string::String.__init__"):
        m.func(spec)
    lab = Lab(m)
    I, W = lab.I, lab.W
    sc = I.global_lookup("scalar", "Float64")
    SRC = _Poly.atom("srcpos")

    def mk(kind):
        if kind.startswith("struct"):
            T = lab.struct("T", [("a", sc), ("b", sc)])
            if kind == "struct<-object":
                other = W.mk_buffer("other")
                src = I.call(I.getattr(T, "_from_buffer"), [other, _Sym(SRC)], {})
                return I.call(T, [src], {"_buffer": W.buffer}), 16
            return I.call(T, [], {"a": _Op("va"), "_buffer": W.buffer}), 16
        if kind == "array":
            A = lab.array("A", [None], (0,), sc)
            return I.call(A, [[_Op("x0"), _Op("x1"), _Op("x2")]], {"_buffer": W.buffer}), 16 + 8 * 3
        if kind == "array(n)":
            A = lab.array("A", [None], (0,), sc)
            return I.call(A, [5], {"_buffer": W.buffer}), 16 + 8 * 5
        if kind == "string":
            S = I.global_lookup("string", "String")
            return I.call(S, ["abcdefghi"], {"_buffer": W.buffer}), 24
        if kind == "union":
            T = lab.struct("T", [("a", sc)])
            MU = I.global_lookup("ref", "MetaUnionRef")
            U0 = I.global_lookup("ref", "UnionRef")
            U = I.call(I.class_attrs(MU)["__new__"], [MU, "U", (U0,), {"_reftypes": (T,)}], {})
            return I.call(U, [], {"_buffer": W.buffer}), 16
        raise AssertionError(kind)

    WR = ("write", "write_array", "child_write", "update_from_buffer", "update_from_xbuffer", "update_from_nplike", "update_from_native", "view_update")

    def extent(e):
        if e.kind == "write":
            return e.pos, e.n
        if e.kind == "write_array":
            return e.pos, e.n * e.count
        if e.kind == "child_write":
            return e.pos, e.size
        if e.kind == "update_from_buffer":
            return e.args[0], len(e.args[1]) if isinstance(e.args[1], (bytes, bytearray)) else None
        if e.kind in ("update_from_xbuffer", "update_from_native"):
            return e.args[0], e.args[3] if len(e.args) > 3 else None
        return (e.args[0] if getattr(e, "args", None) else None), None

    ncons = 0
    for kind in ("struct", "struct<-object", "array", "array(n)", "string", "union"):
        res = I.explore(lambda: mk(kind), max_paths=16)
        owner = {"struct": "struct::Struct.__init__", "struct<-object": "struct::Struct.__init__", "array": "array::Array.__init__", "array(n)": "array::Array.__init__", "string": "string::String.__init__", "union": "ref::UnionRef.__init__"}[kind]
        cx.recog(bool(res) and all(r["exc"] is None for r in res), m.func(owner), f"constructor evaluation ({kind}) raises {[r['exc'].etype for r in res if r['exc']][:1]}")
        for r in res:
            ncons += 1
            obj, want = r["result"]
            effs = r["effects"]
            allocs = [e for e in effs if e.kind == "alloc"]
            why = ""
            if len(allocs) != 1:
                why = f"{len(allocs)} allocations"
            else:
                al = allocs[0]
                k0 = effs.index(al)
                if any(e.kind in WR for e in effs[:k0]):
                    why = "something is written before the allocation"
                elif pol(al.size) != _Poly.const(want):
                    why = f"allocates {al.size!r} bytes, the value needs {want}"
                elif obj.attrs.get("_buffer") is not al.buf or pol(obj.attrs.get("_offset")) != pol(al.pos):
                    why = f"the new object views {obj.attrs.get('_buffer')!r}+{obj.attrs.get('_offset')!r}, not the allocation {al.buf!r}+{al.pos!r}"
                else:
                    nw = 0
                    for e in effs[k0 + 1:]:
                        if e.kind not in WR:
                            continue
                        nw += 1
                        pos, nb = extent(e)
                        if getattr(e, "buf", None) is not al.buf:
                            why = f"{e.kind} goes to {getattr(e, 'buf', None)!r}, not to the buffer of the allocation"
                            break
                        d = pol(pos) - pol(al.pos) if pos is not None else None
                        if d is None or not d.is_const() or nb is None or not pol(nb).is_const():
                            why = f"{e.kind} at {pos!r} (+{nb!r}) is not at a fixed place inside the allocation"
                            break
                        lo, hi = d.const_value(), d.const_value() + pol(nb).const_value()
                        if lo < 0 or hi > want:
                            why = f"{e.kind} covers [{lo}, {hi}) of a {want}-byte allocation"
                            break
                    if not why and nw == 0:
                        why = "nothing is written into the allocation"
            cx.check(not why, None, construct=f"{owner.split('::')[1]} ({kind}): one allocation of {want} bytes, then every write inside it, object views it", detail="the planned size is allocated and the object is written into that allocation (never at the source object's location)",
                     bad_detail=f"the constructor does not write into a fresh allocation of the planned size: {why}", anchor=owner)
    cx.need(ncons >= 6, f"only {ncons} constructor evaluations")
    sb = m.func("struct::Struct._to_buffer")
    fl = Flow(sb)
    loops = [l for l in own_nodes(sb) if isinstance(l, ast.For) and norm(l.iter) == "cls._fields"]
    cx.need(len(loops) == 1, "Struct._to_buffer: field loop not found")
    src = norm(loops[0])
    ok = "fvalue = field.value_from_args(value)" in src and "field.ftype._to_buffer(buffer, foffset, fvalue, finfo)" in src
    has_refs_arm = any(c.text().startswith("not (isinstance(value, cls) and") or "not (isinstance(value, cls)" in c.text() for c in fl.conds_at(loops[0]))
    cx.check(ok, loops[0], construct="field-wise rebuild: every field re-serialised through its own writer", detail="reference fields go through the reference writers (alias in same buffer, duplicate otherwise)", bad_detail="the non-binary arm does not rebuild every field through its type's writer", sub="fieldwise")
