"""Whole-API checks on a representative type zoo built from the *current source* by the partial
evaluator: T3z (C address of every generated accessor = Python locator chain), R07 (get/set twin),
T4 (path/part exhaustiveness), T6/T7 (qualifier placeholders), D3 (include guards)."""
import ast
import re

from ..cexpr import CEval, comments, parse_body, strip_comments
from ..core import rule
from ..linear import Poly
from ..peval import Builtin, NpInt, Obj, Opaque, Sym, topoly
from ..srcmodel import AnalysisError, norm, own_nodes, call_name
from .kernel import CTYPE
from .layout import CONF, OFF, Lab, pol

TYPEWORDS = "int64_t|int32_t|int16_t|int8_t|uint64_t|uint32_t|uint16_t|uint8_t|char|double|float|void"


def build_zoo(lab):
    """returns a dict of classes and a Big instance serialised in the abstract memory"""
    I, W = lab.I, lab.W
    g = lambda mod, n: I.global_lookup(mod, n)
    sc = {n: g("scalar", n) for n in ("Float64", "Float32", "Int64", "UInt64", "Int32", "UInt32", "Int16", "UInt16", "Int8", "UInt8")}
    String = g("string", "String")
    T = lab.struct("T", [("v", sc["Float64"]), ("k", sc["Int8"]), ("w", sc["UInt16"])])
    A1 = lab.array("ArrNFloat64", (None,), (0,), sc["Float64"])
    AT = lab.array("ArrNT", (None,), (0,), T)
    AS = lab.array("ArrNString", (None,), (0,), String)
    # (one extent given as a numpy integer, as shapes computed with numpy are: sizes and the offsets of the fields
    # that follow become numpy integers too -- PF58)
    M = lab.array("Arr2x3Int16", (NpInt(2), 3), (1, 0), sc["Int16"])
    # (a dynamic extent next to a static one that is a numpy integer: the length accessor multiplies header words and
    # literals -- which is which must not depend on the Python type of the literal)
    D2 = lab.array("ArrNx3Float32", (None, NpInt(3)), (1, 0), sc["Float32"])
    Ref = g("ref", "Ref")
    R = I.call(Ref, [T], {})
    MU = g("ref", "MetaUnionRef")
    U0 = g("ref", "UnionRef")
    U = I.call(I.class_attrs(MU)["__new__"], [MU, "U", (U0,), {"_reftypes": (T, A1)}], {})
    fields = [("a", sc["Int64"]), ("b", sc["UInt8"]), ("s", String), ("arr", A1), ("arr2", AT), ("strs", AS), ("r", R), ("u", U), ("m", M), ("d2", D2),
              ("c32", sc["UInt32"]), ("c64", sc["UInt64"]), ("i32", sc["Int32"])]
    Big = lab.struct("Big", fields)
    t = I.call(T, [], {"v": Opaque("tv"), "k": Opaque("tk"), "w": Opaque("tw"), "_buffer": W.buffer})
    strs = ["ab", "cdefghijk"]
    args = {
        "a": Opaque("va"), "b": Opaque("vb"), "s": "héllo", "c32": Opaque("c32"), "c64": Opaque("c64"), "i32": Opaque("i32"),
        "arr": lab.value("x", [3]),
        "arr2": lab.value("y", [2], elem=lambda k: {"v": Opaque(f"yv{k}"), "k": Opaque(f"yk{k}"), "w": Opaque(f"yw{k}")}),
        "strs": lab.value("z", [2], elem=lambda k: strs[k]),
        "r": t, "u": t,
        "m": lab.value("mm", [2, 3]),
        "d2": lab.value("dd", [2, 3]),
        "_buffer": W.buffer,
    }
    big = I.call(Big, [], args)
    return {"Big": Big, "T": T, "A1": A1, "AT": AT, "AS": AS, "M": M, "D2": D2, "R": R, "U": U, "t": t, "big": big, "scalars": sc, "String": String,
            "dims": {id(A1): [3], id(AT): [2], id(AS): [2], id(M): [2, 3], id(D2): [2, 3]}}


def py_locate(lab, zoo, path, idxs):
    """absolute position of the last part of `path`, following the Python locators of the source"""
    I, W = lab.I, lab.W
    is_field = I.global_lookup("struct", "is_field")
    is_index = I.global_lookup("array", "is_index")
    is_ref = I.global_lookup("ref", "is_ref")
    view = I.call(I.getattr(path[0], "_from_buffer"), [W.buffer, I.getattr(zoo["big"], "_offset")], {}) if hasattr(path[0], "attrs") else None
    pos = I.getattr(zoo["big"], "_offset")
    k = 0
    for part in path[1:]:
        if I.truth(I.call(is_field, [part], {})):
            ftype, pos = I.call(I.getattr(part, "get_offset"), [view], {})
            view = _materialise(lab, ftype, pos)
        elif I.truth(I.call(is_index, [part], {})):
            cls = I.getattr(part, "cls")
            nd = len(cls.attrs["_shape"])
            idx = tuple(idxs[k : k + nd])
            k += nd
            pos = I.call(I.getattr(view, "_get_offset"), [idx if nd > 1 else idx[0]], {})
            view = _materialise(lab, cls.attrs["_itemtype"], pos)
        elif I.truth(I.call(is_ref, [part], {})):
            tgt = I.call(I.getattr(part, "_from_buffer"), [W.buffer, pos], {})
            if tgt is None:
                return None
            view = tgt
            pos = I.getattr(tgt, "_offset")
        else:
            continue  # a type object contributes nothing
    return pos


def _materialise(lab, typ, pos):
    I, W = lab.I, lab.W
    if isinstance(typ, Obj) and typ.kind == "class" and typ.meta is not None and typ.meta.name in ("MetaStruct", "MetaArray"):
        return I.call(I.getattr(typ, "_from_buffer"), [W.buffer, pos], {})
    return None


def _functions(src, prefix=r"/\*gpufun\*/"):
    """split generated source into {name: (decl, text)}"""
    out = {}
    for mm in re.finditer(r"(?m)^(" + prefix + r"[^\n{;]*?\b([A-Za-z_0-9]+)\(([^)]*)\))\s*\{", src):
        start = mm.start()
        depth, i = 0, src.index("{", mm.end() - 1)
        j = i
        while True:
            if src[j] == "{":
                depth += 1
            elif src[j] == "}":
                depth -= 1
                if depth == 0:
                    break
            j += 1
        out[mm.group(2)] = (mm.group(1), src[start : j + 1], mm.group(3))
    return out


def _zoo_sources(cx, builder=None):
    m = cx.m
    lab = Lab(m)
    I, W = lab.I, lab.W
    out = {}

    def thunk():
        zoo = (builder or build_zoo)(lab)
        out["zoo"] = zoo
        out["mem"] = dict(I.mem)
        Big = zoo["Big"]
        out["src"] = I.getattr(I.call(I.getattr(Big, "_gen_c_api"), [dict(CONF)], {}), "source")
        out["paths"] = I.call(I.getattr(Big, "_gen_data_paths"), [], {})
        out["kernels"] = I.call(I.getattr(Big, "_gen_kernels"), [dict(CONF)], {})
        mfp = I.global_lookup("capi", "methods_from_path")
        out["methods"] = {id(p): [(src_, I.getattr(k_, "c_name")) for src_, k_ in I.call(mfp, [Big, p, dict(CONF)], {}) if src_ is not None] for p in out["paths"]}
        out["cdecl"] = I.call(I.getattr(Big, "_gen_c_decl"), [{}], {})
        out["others"] = {}
        for nm in zoo.get("others", ("T", "A1", "AT", "AS", "M", "D2", "U")):
            c = zoo[nm]
            s = I.call(I.getattr(c, "_gen_c_api"), [dict(CONF)], {})
            out["others"][nm] = I.getattr(s, "source") if isinstance(s, Obj) else s
        # python positions of every path for sample indices
        locs = {}
        is_index = I.global_lookup("array", "is_index")
        for p in out["paths"]:
            nidx = 0
            dims = []
            for part in p:
                if I.truth(I.call(is_index, [part], {})):
                    cls = I.getattr(part, "cls")
                    dims.extend(zoo["dims"][id(cls)])
            import itertools

            for idxs in itertools.product(*[range(d) for d in dims]) if dims else [()]:
                locs[(id(p), idxs)] = py_locate(lab, zoo, p, list(idxs))
        out["locs"] = locs
        return zoo

    res = lab.I.explore(thunk, max_paths=8)
    if len(res) != 1 or res[0]["exc"] is not None:
        e = res[0]["exc"]
        raise AnalysisError(f"type zoo cannot be evaluated on this tree: {e.etype if e else 'fork'}: {e.msg if e else res[0]['conds']}")
    out["lab"] = lab
    return out


def _path_fun_names(lab, zoo, path):
    """names gen_fun_kernel gives to the accessors of a path"""
    I = lab.I
    g = I.global_lookup("capi", "gen_fun_kernel")
    names = {}
    for action, nidx in (("get", False), ("set", False), ("getp", True), ("len", True), ("typeid", False), ("member", False)):
        k = I.call(g, [zoo["Big"], path], {"action": action, "const": False, "extra": [], "ret": None, "add_nindex": nidx})
        names[action] = I.getattr(k, "c_name")
    return names


ZOO_TYPENAMES = {"Big", "T", "U", "ArrNFloat64", "ArrNT", "ArrNString", "Arr2x3Int16", "ArrNx3Float32",
                 "Rare", "Leaf", "Arr1String", "Arr1x1ArrNFloat64", "Arr4Int32", "Arr3Arr4Int32", "Arr2Arr3Arr4Int32", "ArrNLeaf", "Branch", "ArrNBranch", "Arr2Int16", "ArrNxNFloat64", "ArrNx2ArrNxNFloat64"}


def build_zoo_rare(lab):
    """a second, small zoo of RARE shapes (round j): arrays whose extents are all 1 with dynamically sized items (the
    item offset table must still be followed), paths that cross three arrays -- directly and through structs, with
    unequal extents (each index argument belongs to its own array)."""
    I, W = lab.I, lab.W
    g = lambda mod, n: I.global_lookup(mod, n)
    F, I32, I16, I64 = g("scalar", "Float64"), g("scalar", "Int32"), g("scalar", "Int16"), g("scalar", "Int64")
    String = g("string", "String")
    ONE = lab.array("Arr1String", (1,), (0,), String)
    A1 = lab.array("ArrNFloat64", (None,), (0,), F)
    ONE2 = lab.array("Arr1x1ArrNFloat64", (1, 1), (0, 1), A1)
    D4 = lab.array("Arr4Int32", (4,), (0,), I32)
    D3 = lab.array("Arr3Arr4Int32", (3,), (0,), D4)
    D2 = lab.array("Arr2Arr3Arr4Int32", (2,), (0,), D3)
    S2 = lab.array("Arr2Int16", (2,), (0,), I16)
    Leaf = lab.struct("Leaf", [("q", I64), ("data", S2)])
    AL = lab.array("ArrNLeaf", (None,), (0,), Leaf)
    Branch = lab.struct("Branch", [("k", I64), ("leaves", AL)])
    AB = lab.array("ArrNBranch", (None,), (0,), Branch)
    # (two arrays on one path that BOTH keep their strides in the header: the locals of the two levels live in one function)
    M2 = lab.array("ArrNxNFloat64", (None, None), (0, 1), F)
    G2 = lab.array("ArrNx2ArrNxNFloat64", (None, 2), (0, 1), M2)
    Rare = lab.struct("Rare", [("n", I64), ("one", ONE), ("one2", ONE2), ("deep", D2), ("branches", AB), ("grid", G2)])
    leaf = lambda t: {"q": Opaque(f"q{t}"), "data": lab.value(f"ld{t}", [2])}
    args = {
        "n": Opaque("vn"),
        "one": lab.value("o", [1], elem=lambda k: "only one"),
        "one2": lab.value("oo", [1, 1], elem=lambda k: lab.value("ooi", [3])),
        "deep": lab.value("dp", [2], elem=lambda k: lab.value(f"dp{k}", [3], elem=lambda j: lab.value(f"dp{k}{j}", [4]))),
        "branches": lab.value("br", [2], elem=lambda k: {"k": Opaque(f"bk{k}"), "leaves": lab.value(f"lv{k}", [3], elem=lambda j: leaf(f"{k}{j}"))}),
        "grid": lab.value("g", [2, 2], elem=lambda k: lab.value("g" + _idxname(k), [2, 3])),
        "_buffer": W.buffer,
    }
    rare = I.call(Rare, [], args)
    return {"Big": Rare, "big": rare, "others": (), "String": String,
            "dims": {id(ONE): [1], id(ONE2): [1, 1], id(A1): [3], id(D4): [4], id(D3): [3], id(D2): [2], id(S2): [2], id(AL): [3], id(AB): [2], id(M2): [2, 3], id(G2): [2, 2]}}


def _idxname(k):
    return "_".join(str(x) for x in (k if isinstance(k, tuple) else (k,)))


def accessor_mismatches(Z, texts):
    """`texts`: {accessor name: text of its definition}.  Every get/set/getp accessor of every data path of the zoo is
    evaluated on the abstract memory for every in-range index tuple; returns [(name, params, nf, n_idx, bad)] with bad
    None or (indices, C position, Python position)."""
    lab, zoo, mem = Z["lab"], Z["zoo"], Z["mem"]
    I = lab.I
    base = pol(I.getattr(zoo["big"], "_offset"))
    out = []
    for p in Z["paths"]:
        idx_sets = sorted({k[1] for k in Z["locs"] if k[0] == id(p)})
        for _, cname in Z["methods"][id(p)]:
            action = cname.split("_")[1]
            if not (action in ("get", "set") or action.startswith("getp")):
                continue
            text = texts.get(cname)
            if text is None:
                out.append((cname, "", "", 0, ("-", "accessor not found in the text", "")))
                continue
            params = text[text.index("(") + 1 : text.index(")")]
            stmts = parse_body(text, ZOO_TYPENAMES)
            bad = None
            for idxs in idx_sets:
                want = Z["locs"][(id(p), idxs)]
                if want is None:
                    continue
                env = {f"i{k}": Poly.const(v) for k, v in enumerate(idxs)}
                env["value"] = Poly.atom("value")
                ev = CEval(mem, base, env)
                r = ev.run(stmts)
                if ev.redecl:
                    bad = ("-", f"`{ev.redecl[0]}` is declared twice in the function body: a C compiler refuses the function (redefinition), on every target", "")
                    break
                got = base + ev.env["offset"]
                if got != pol(want):
                    bad = (idxs, got - base, pol(want) - base)
                    break
                if r is not None and r[0] == "return" and isinstance(r[1], tuple) and r[1][0] == "tptr" and r[1][1] != ev.env["offset"]:
                    bad = (idxs, r[1][1], ev.env["offset"])
                    break
                if r is not None and r[0] == "store":
                    tgt = r[1]
                    if not (isinstance(tgt, tuple) and tgt[0] == "tptr" and tgt[1] == ev.env["offset"]):
                        bad = (idxs, tgt, ev.env["offset"])
                        break
            out.append((cname, strip_comments(params).strip(), " ".join(strip_comments(text).split())[:160], len(idx_sets), bad))
    return out


@rule("T3z", ["C02", "C07"], "type zoo: every generated accessor of every data path computes the address the Python locators compute")
def t3z(cx):
    Z = _zoo_sources(cx)
    lab, zoo, mem = Z["lab"], Z["zoo"], Z["mem"]
    I = lab.I
    funs = _functions(Z["src"])
    cx.need(len(funs) >= 60, f"only {len(funs)} generated functions recognised")
    typenames = ZOO_TYPENAMES
    base = pol(I.getattr(zoo["big"], "_offset"))
    n = 0
    import itertools

    nlen = 0
    for p in Z["paths"]:
        idx_sets = sorted({k[1] for k in Z["locs"] if k[0] == id(p)})
        for text, cname in Z["methods"][id(p)]:
            action = cname.split("_")[1]
            lastt = p[-1].attrs.get("ftype") if hasattr(p[-1], "attrs") and "ftype" in p[-1].attrs else p[-1]
            if action == "len" and id(lastt) in zoo["dims"] and len(p) == 3:
                # the length accessor of an array that is a field of the root: evaluated on the abstract memory, it is
                # the product of the extents the array was built with (static extents are literals of ANY integer type)
                want = 1
                for d_ in zoo["dims"][id(lastt)]:
                    want *= d_
                ev = CEval(mem, base, {})
                r = ev.run(parse_body(text, typenames))
                okl = r is not None and r[0] == "return" and isinstance(r[1], Poly) and r[1] == Poly.const(want)
                nlen += 1
                cx.check(okl, None, construct=f"{cname}: {' '.join(strip_comments(text).split())[-80:]}", detail=f"C length = product of the extents = {want}",
                         bad_detail=f"the C length evaluates to {(r[1] if r else None)!r}, the array has {zoo['dims'][id(lastt)]} = {want} items", anchor="capi::gen_method_len", sub="len")
                continue
            if not (action in ("get", "set") or action.startswith("getp")):
                continue
            params = text[text.index("(") + 1 : text.index(")")]
            stmts = parse_body(text, typenames)
            bad = None
            for idxs in idx_sets:
                want = Z["locs"][(id(p), idxs)]
                if want is None:
                    continue
                env = {f"i{k}": Poly.const(v) for k, v in enumerate(idxs)}
                env["value"] = Poly.atom("value")
                ev = CEval(mem, base, env)
                r = ev.run(stmts)
                got = base + ev.env["offset"]
                if got != pol(want):
                    bad = (idxs, got - base, pol(want) - base)
                    break
                if r is not None and r[0] == "return" and isinstance(r[1], tuple) and r[1][0] == "tptr":
                    if r[1][1] != ev.env["offset"]:
                        bad = (idxs, r[1][1], ev.env["offset"])
                        break
                if r is not None and r[0] == "store":
                    tgt = r[1]
                    if not (isinstance(tgt, tuple) and tgt[0] == "tptr" and tgt[1] == ev.env["offset"]):
                        bad = (idxs, tgt, ev.env["offset"])
                        break
            n += 1
            cx.check(bad is None, None, construct=f"{cname}({strip_comments(params).strip()})", nf=" ".join(strip_comments(text).split())[:160],
                     detail=f"C address = Python locator chain for {len(idx_sets)} index tuple(s)",
                     bad_detail=(f"indices {bad[0]}: C addresses obj+{bad[1]!r}, Python obj+{bad[2]!r}" if bad else ""), anchor="capi::gen_method_offset")
    cx.need(n >= 50, f"only {n} accessor/locator comparisons")
    cx.need(nlen >= 5, f"only {nlen} length accessors evaluated")
    # union: typeid word and member address
    def thunk_u():
        u_field = [f for f in zoo["Big"].attrs["_fields"] if f.attrs["name"] == "u"][0]
        view = I.call(I.getattr(zoo["Big"], "_from_buffer"), [lab.W.buffer, I.getattr(zoo["big"], "_offset")], {})
        _, upos = I.call(I.getattr(u_field, "get_offset"), [view], {})
        member = I.call(I.getattr(zoo["U"], "_from_buffer"), [lab.W.buffer, upos], {})
        tid = I.call(I.getattr(zoo["U"], "_typeid_from_type"), [zoo["T"]], {})
        return upos, I.getattr(member, "_offset"), tid

    I.mem = dict(mem)
    saved = dict(mem)

    def thunk_u2():
        I.mem.update(saved)
        return thunk_u()

    r = lab.I.explore(thunk_u2, max_paths=4)[0]
    cx.need(r["exc"] is None, f"union member cannot be resolved in the zoo: {r['exc'].msg if r['exc'] else ''}")
    upos, mpos, tid = r["result"]
    ftid = funs.get("Big_typeid_u")
    fmem = funs.get("Big_member_u")
    cx.need(ftid is not None and fmem is not None, "Big_typeid_u / Big_member_u not generated")
    ev = CEval(mem, base, {})
    rr = ev.run(parse_body(ftid[1], typenames))
    ok = rr is not None and rr[0] == "return" and isinstance(rr[1], Poly) and rr[1] == Poly.const(tid) and base + ev.env["offset"] == pol(upos) + Poly.const(8)
    cx.check(ok, None, construct="Big_typeid_u: " + " ".join(strip_comments(ftid[1]).split())[:140], detail=f"member index read from the word after the offset word (= {tid})", bad_detail=f"C typeid evaluates to {rr[1] if rr else None!r} at obj+{ev.env['offset']!r}; Python records {tid} at slot+8", anchor="capi::gen_method_typeid", sub="typeid")
    ev = CEval(mem, base, {}, allow_early=True)
    rr = ev.run(parse_body(fmem[1], typenames))
    ok = base + ev.env["offset"] == pol(mpos)
    # a conditional exit on a condition the layout does not decide: the member of the zoo is a live object wherever the
    # allocator put it (before or behind the slot), and for those placements the accessor answers something else
    for cond, outcome in ev.early:
        cx.bad(None, construct="Big_member_u: " + " ".join(strip_comments(fmem[1]).split())[:140], detail=f"leaves with {outcome[1]!r} when `{cond}`: the stored word is the member's position RELATIVE to the slot, whose sign depends on where the member was allocated; for a live member on that side the C address is not the one Python resolves (obj+{pol(mpos) - base!r})", anchor="capi::gen_method_member", sub="member")
    cx.check(ok, None, construct="Big_member_u: " + " ".join(strip_comments(fmem[1]).split())[:140], detail="member address = slot + stored relative offset", bad_detail=f"C member address obj+{ev.env['offset']!r}, Python member at obj+{pol(mpos) - base!r}", anchor="capi::gen_method_member", sub="member")
    en = re.search(r"enum U_e\{([^}]*)\}", Z["others"]["U"])
    cx.check(en is not None and en.group(1).split(",") == ["U_T_t", "U_ArrNFloat64_t"], None, construct=f"enum U_e{{{en.group(1) if en else '?'}}}", detail="C member ids enumerate _reftypes in order (same ids as _typeid_from_type)", bad_detail="C enum does not list the members in _reftypes order", anchor="capi::gen_enum", sub="enum")


@rule("T3r", ["C02", "C07", "C15"], "rare shapes: arrays of extents (1,) / (1,1) with dynamically sized items, paths crossing three arrays (directly, and through structs) -- every generated accessor computes the address the Python locators compute")
def t3r(cx):
    """The zoo of T3z has at most two arrays on a path and no array whose extents are all 1.  This second zoo has:
    `String[1]`, `Float64[:][1,1]` (one slot, dynamically sized item: the item offset table is still followed),
    `Int32[4][3][2]` and `branches[i].leaves[j].data[k]` with extents 2 / 3 / 2 (three arrays on one path: index
    argument k belongs to array k).  Evaluated like T3z for every in-range index tuple."""
    from .. import peval as _pe

    lim = _pe.MAX_STEPS
    _pe.MAX_STEPS = max(lim, 4000000)  # (nine array classes, three of them nested three deep: the locators of ~120 index tuples)
    try:
        Z = _zoo_sources(cx, build_zoo_rare)
    finally:
        _pe.MAX_STEPS = lim
    funs = _functions(Z["src"])
    cx.need(len(funs) >= 30, f"only {len(funs)} generated functions recognised in the rare-shape zoo")
    res = accessor_mismatches(Z, {nm: v[1] for nm, v in funs.items()})
    cx.need(len(res) >= 25, f"only {len(res)} accessors of the rare-shape zoo evaluated")
    deep = [r for r in res if r[1].count("int64_t i") >= 3 or r[1].count(" i2") >= 1]
    cx.need(len(deep) >= 4, f"only {len(deep)} accessors with three index arguments")
    for cname, params, nf, nidx, bad in res:
        cx.check(bad is None, None, construct=f"{cname}({params})", nf=nf, detail=f"C address = Python locator chain for {nidx} index tuple(s)",
                 bad_detail=((bad[1] if bad[0] == "-" else f"indices {bad[0]}: C addresses obj+{bad[1]!r}, Python obj+{bad[2]!r}") if bad else ""), anchor="capi::gen_method_offset")


@rule("R07", ["C07"], "generated setter and getter of a leaf share one address computation and one typed access of the element's width")
def r07(cx):
    Z = _zoo_sources(cx)
    lab, zoo = Z["lab"], Z["zoo"]
    funs = _functions(Z["src"])
    pairs = 0
    for name, (decl, text, params) in funs.items():
        m_ = re.match(r"^(.*)_get_(.*)$", name) or (re.match(r"^(.*)_get$", name))
        if not name.split("_")[1].startswith("get") or name.split("_")[1] != "get":
            continue
        sname = name.replace("_get", "_set", 1)
        if sname not in funs:
            cx.bad(None, construct=f"{name} has no setter twin", detail="scalar leaf without a generated setter", anchor="capi::methods_from_path")
            continue
        gbody = [l.strip() for l in funs[name][1].splitlines()[1:-1]]
        sbody = [l.strip() for l in funs[sname][1].splitlines()[1:-1]]
        pairs += 1
        same_addr = gbody[:-1] == sbody[:-1]
        gm = re.match(r"^return (.*);$", gbody[-1])
        sm = re.match(r"^(.*)=value;$", sbody[-1])
        same_access = gm is not None and sm is not None and gm.group(1) == sm.group(1)
        # declared types: return type of the getter = type of `value` = pointee type of the access
        rtype = strip_comments(funs[name][0]).split()[0] if not strip_comments(funs[name][0]).split()[0] == "const" else strip_comments(funs[name][0]).split()[1]
        sparams = [x.strip() for x in strip_comments(funs[sname][2]).split(",")]
        vtype = sparams[-1].rsplit(" ", 1)[0].strip()
        acc = re.search(r"\(\s*([a-z0-9_]+)\s*\*\s*\)", strip_comments(gm.group(1))) if gm else None
        ptype = acc.group(1) if acc else None
        types_ok = rtype == vtype == ptype
        gidx = [x for x in strip_comments(funs[name][2]).split(",")[1:]]
        sidx = sparams[1:-1]
        idx_ok = [x.strip() for x in gidx] == sidx and all(x.startswith("int64_t i") for x in sidx)
        cx.check(same_addr and same_access and types_ok and idx_ok, None, construct=f"{name} / {sname}: access {strip_comments(gm.group(1)).strip() if gm else '?'} as {ptype}",
                 detail="identical offset statements, identical typed lvalue, value/return/pointee types equal, same int64 index parameters",
                 bad_detail=("setter and getter compute different addresses" if not same_addr else "setter stores through another lvalue than the getter reads" if not same_access else f"types differ: return {rtype}, value {vtype}, pointee {ptype}" if not types_ok else f"index parameters differ: {gidx} vs {sidx}"),
                 anchor="capi::gen_method_set")
    cx.need(pairs >= 12, f"only {pairs} get/set pairs in the zoo")
    # element width: pointee C type of every scalar kind has the scalar's byte size (oracle table)
    for nm, scv in zoo["scalars"].items():
        ct = lab.I.getattr(scv, "_c_type")
        sz = lab.I.getattr(scv, "_size")
        want = CTYPE[nm.lower()]
        cx.check(ct == want[0] and sz == want[1], None, construct=f"{nm}: C type {ct}, {sz} bytes", detail="store width = element width", bad_detail=f"{nm}: C type {ct} / size {sz}, oracle {want[0]} / {want[1]}", anchor="scalar::NumpyScalar.__init__", sub="width")
    # setters only for scalar leaves; one-byte access form only for one-byte types
    for name, (decl, text, params) in funs.items():
        last = [l.strip() for l in text.splitlines()[1:-1]][-1]
        m1 = re.search(r"\*\(\((?:/\*gpuglmem\*/)?\s*([a-z0-9_]+)\*\)\s*obj\+offset\)", last)
        if m1:
            cx.check(m1.group(1) in ("int8_t", "uint8_t", "char"), None, construct=f"{name}: {strip_comments(last)}", detail="untyped-stride pointer arithmetic only for 1-byte elements",
                     bad_detail=f"`({m1.group(1)}*) obj+offset` scales the byte offset by {m1.group(1)}'s width", anchor="capi::gen_c_pointed", sub="bytewise")


def _history_source(cx):
    """the API source of the zoo root generated AFTER the declarations were generated with another conf (what ContextCpu
    does before a GPU context builds the same classes), in a fresh interpreter"""
    lab = Lab(cx.m)
    I = lab.I
    out = {}

    def thunk():
        zoo = build_zoo(lab)
        for nm in ("Big", "T", "A1", "AT", "AS", "M", "D2", "U"):
            I.call(I.getattr(zoo[nm], "_gen_c_decl"), [{}], {})
        try:
            I.call(I.getattr(zoo["Big"], "_gen_kernels"), [{}], {})
        except Exception:
            pass
        out["src"] = I.getattr(I.call(I.getattr(zoo["Big"], "_gen_c_api"), [dict(CONF)], {}), "source")
        return None

    res = I.explore(thunk, max_paths=8)
    if len(res) != 1 or res[0]["exc"] is not None:
        e = res[0]["exc"]
        raise AnalysisError(f"type zoo (history order) cannot be evaluated: {e.etype if e else 'fork'}: {e.msg if e else res[0]['conds']}")
    return out["src"]


@rule("T6", ["C15", "C14"], "every pointer into object memory carries the global-memory placeholder; every function the function placeholder; API wrapped in include guards")
def t6(cx):
    Z = _zoo_sources(cx)
    srcs = {"Big": Z["src"]}
    srcs.update(Z["others"])
    nptr = nfun = 0
    for nm, src in srcs.items():
        # T6 pointer types
        for mm in re.finditer(r"(?:(/\*gpuglmem\*/)\s*)?\b(?:const\s+)?(" + TYPEWORDS + r")\s*\*", src):
            nptr += 1
            if mm.group(1) is None:
                line = src[src.rfind("\n", 0, mm.start()) + 1 : src.find("\n", mm.end())]
                cx.bad(None, construct=f"{nm}: `{line.strip()[:120]}`", detail=f"pointer type `{mm.group(0).strip()}` without the /*gpuglmem*/ placeholder: on OpenCL it is a private-address-space pointer into global memory", anchor="capi::gen_pointer", sub="pointer")
        for mm in re.finditer(r"typedef\s+(/\*gpuglmem\*/)?\s*struct\s+\w+\s*\*\s*\w+;", src):
            nptr += 1
            cx.check(mm.group(1) is not None, None, construct=f"{nm}: {mm.group(0)}", detail="opaque handle type is a global-memory pointer", bad_detail="class handle typedef lacks the /*gpuglmem*/ placeholder", anchor="capi::gen_typedef", sub="typedef")
        # T7 function qualifier
        for line in src.splitlines():
            if re.match(r"^\s*(?:/\*gpufun\*/\s*)?[A-Za-z_/\*][^;=]*\)\s*\{\s*$", line) and "switch" not in line and not line.strip().startswith(("if", "for", "case")):
                nfun += 1
                if not line.lstrip().startswith("/*gpufun*/"):
                    cx.bad(None, construct=f"{nm}: `{line.strip()[:100]}`", detail="function definition without the /*gpufun*/ placeholder (no __device__ / static inline after specialisation)", anchor="capi::gen_c_decl_from_kernel", sub="function")
        # D3 include guards
        lines = src.splitlines()
        name = {"A1": "ArrNFloat64", "AT": "ArrNT", "AS": "ArrNString", "M": "Arr2x3Int16", "D2": "ArrNx3Float32"}.get(nm, nm)
        ok = len(lines) >= 3 and lines[0] == f"#ifndef XOBJ_TYPEDEF_{name}" and lines[1] == f"#define XOBJ_TYPEDEF_{name}" and lines[-1].strip() == "#endif" and sum(1 for l in lines if l.startswith("#ifndef XOBJ_TYPEDEF_")) == 1
        cx.check(ok, None, construct=f"{nm}: #ifndef/#define XOBJ_TYPEDEF_{name} ... #endif", detail="everything emitted for a class sits inside one include guard named after the class", bad_detail="class API is not wrapped in `#ifndef XOBJ_TYPEDEF_<name>` / `#define` of the same symbol / `#endif`", anchor="capi::gen_code", sub="guard")
    if not [i for i in cx.insts if i.verdict == "violation" and i.rule.endswith("pointer")]:
        cx.ok(None, construct=f"{nptr} pointer types in the generated API of 8 classes all carry /*gpuglmem*/", detail="global address space on OpenCL after substitution", anchor="capi::gen_pointer", sub="pointer")
    if not [i for i in cx.insts if i.verdict == "violation" and i.rule.endswith("function")]:
        cx.ok(None, construct=f"{nfun} function definitions all start with /*gpufun*/", detail="device/inline qualifier after substitution", anchor="capi::gen_c_decl_from_kernel", sub="function")
    cx.need(nptr >= 100 and nfun >= 70, f"zoo too small: {nptr} pointer types, {nfun} functions")
    # the API source for a configuration is a function of (class, configuration) only -- not of what was generated before
    hist = _history_source(cx)
    if hist != Z["src"]:
        a_, b_ = Z["src"].splitlines(), hist.splitlines()
        k = next((i for i, (x, y) in enumerate(zip(a_, b_)) if x != y), min(len(a_), len(b_)))
        cx.bad(None, construct=f"API of the zoo root generated after its declarations were generated with another configuration differs (first difference at line {k}: `{(b_[k] if k < len(b_) else '<end>').strip()[:90]}` instead of `{(a_[k] if k < len(a_) else '<end>').strip()[:90]}`)",
               detail="the generated source depends on the generation HISTORY (a memo keyed by the class alone?): a GPU context that builds classes a CPU context declared before gets text generated for the other configuration, e.g. without the global-memory / device-function placeholders", anchor="capi::gen_code", sub="history")
    else:
        cx.ok(None, construct="API source of the zoo root is identical whether or not declarations were generated before with another configuration", detail="generation is a function of (class, configuration)", anchor="capi::gen_code", sub="history")
    # placeholders of the default configuration are the ones the specialiser replaces
    dc = cx.m.module_assign("typeutils", "default_conf")
    vals = {norm(k).strip("'"): norm(v).strip("'") for k, v in zip(dc.keys, dc.values)}
    cx.check(vals.get("gpumem") == "/*gpuglmem*/" and vals.get("gpufun") == "/*gpufun*/" and vals.get("cpurestrict") == "/*restrict*/" and vals.get("inttype") == "int64_t" and vals.get("chartype") == "char", dc,
             construct=f"default_conf = {vals}", detail="generator placeholders = specialiser search keys; address arithmetic in int64_t over char*", bad_detail="default_conf placeholders/types changed", sub="conf")


ZOO_API = ['Big_get_a', 'Big_get_arr', 'Big_get_arr2_k', 'Big_get_arr2_v', 'Big_get_arr2_w', 'Big_get_b', 'Big_get_c32', 'Big_get_c64', 'Big_get_d2', 'Big_get_i32', 'Big_get_m', 'Big_get_r_k', 'Big_get_r_v', 'Big_get_r_w', 'Big_getp', 'Big_getp1_arr', 'Big_getp1_arr2', 'Big_getp1_arr2_k', 'Big_getp1_arr2_v', 'Big_getp1_arr2_w', 'Big_getp1_strs', 'Big_getp2_d2', 'Big_getp2_m', 'Big_getp_a', 'Big_getp_arr', 'Big_getp_arr2', 'Big_getp_b', 'Big_getp_c32', 'Big_getp_c64', 'Big_getp_d2', 'Big_getp_i32', 'Big_getp_m', 'Big_getp_r', 'Big_getp_r_k', 'Big_getp_r_v', 'Big_getp_r_w', 'Big_getp_s', 'Big_getp_strs', 'Big_getp_u', 'Big_len_arr', 'Big_len_arr2', 'Big_len_d2', 'Big_len_m', 'Big_len_strs', 'Big_member_u', 'Big_set_a', 'Big_set_arr', 'Big_set_arr2_k', 'Big_set_arr2_v', 'Big_set_arr2_w', 'Big_set_b', 'Big_set_c32', 'Big_set_c64', 'Big_set_d2', 'Big_set_i32', 'Big_set_m', 'Big_set_r_k', 'Big_set_r_v', 'Big_set_r_w', 'Big_typeid_u']


@rule("T4", ["C02"], "path enumeration recurses into every inner type: the zoo's API has an accessor of every kind for every member reachable from the root")
def t4(cx):
    """The accessor set the CURRENT generator emits for the type zoo (evaluated, not matched) is compared with the frozen
    list of accessors the documented scheme yields for it: get/set for scalar leaves, getp for every part, getpN /
    len for arrays, typeid/member for union references -- through fields, array items (incl. array of struct, array of
    strings) and references.  A member the enumeration no longer reaches, or an accessor kind no longer generated for
    its leaf kind, shows up as a missing name; the ADDRESS each of them computes is rule T3z."""
    Z = _zoo_sources(cx)
    funs = _functions(Z["src"])
    got = set(funs)
    want = set(ZOO_API)
    missing = sorted(want - got)
    for nm in missing[:6]:
        cx.bad(None, construct=f"accessor `{nm}` is not generated for the type zoo", detail="a member reachable from the root (or an accessor kind of its leaf kind) has no C accessor any more: kernels using it fail to build / the member cannot be addressed from C", anchor="capi::methods_from_path")
    if not missing:
        cx.ok(None, construct=f"{len(want)} accessors of the zoo generated ({len(got - want)} additional)", detail="every member reachable from the root has the accessors of its kind", anchor="capi::methods_from_path")
    # each generated function appears once (a duplicate definition does not compile)
    import collections

    names = re.findall(r"(?m)^/\*gpufun\*/[^\n{;]*?\b([A-Za-z_0-9]+)\([^)]*\)\s*\{", Z["src"])
    dup = [n for n, k in collections.Counter(names).items() if k > 1]
    cx.check(not dup, None, construct=f"{len(names)} function definitions, {len(dup)} duplicated", detail="each accessor is defined once", bad_detail=f"accessors defined more than once: {dup[:4]}", anchor="capi::gen_code", sub="once")
    cx.need(len(Z["paths"]) >= 40, f"only {len(Z['paths'])} data paths enumerated for the zoo")


@rule("T8", ["C02", "C07", "C14"], "the C API generated for a class is a function of the CLASS (and the configuration), not of its NAME: generating the API of a same-named class of another layout before does not change it")
def t8(cx):
    """Class names are not unique: `Float64[2,3]` and `Float64[2:1,3:0]` are both `Arr2x3Float64`; a struct can be
    defined again under its name with other fields; arrays of both are again same-named.  For each such pair (X, Y):
    the API source / declarations of Y generated in a fresh interpreter must equal those generated AFTER X's were
    generated in the same interpreter (a memo keyed by the name, a registry of emitted names ... would make Y address
    X's layout).  Evaluated, not matched."""
    m = cx.m
    m.func("capi::gen_code")

    def world(first):
        lab = Lab(m)
        I = lab.I
        out = {}

        def thunk():
            g = lambda mod, n: I.global_lookup(mod, n)
            F, I32 = g("scalar", "Float64"), g("scalar", "Int32")
            mk = {
                "order": lambda: (lab.array("Arr2x3Float64", (2, 3), (0, 1), F), lab.array("Arr2x3Float64", (2, 3), (1, 0), F)),
                "dynorder": lambda: (lab.array("ArrNx3Float64", (None, 3), (0, 1), F), lab.array("ArrNx3Float64", (None, 3), (1, 0), F)),
                "struct": lambda: (lab.struct("Pair", [("x", F), ("y", I32)]), lab.struct("Pair", [("y", I32), ("x", F)])),
                # two classes of DIFFERENT names declared with the same xo.Field objects (a common field table); the
                # header slots of the dynamic fields sit at other offsets in the second one
                "shared-fields": lambda: shared(),
            }

            def shared():
                Field, I64 = g("struct", "Field"), g("scalar", "Int64")
                AF = lab.array("ArrNFloat64", (None,), (0,), F)
                fa, fb = I.call(Field, [AF], {}), I.call(Field, [AF], {})
                return lab.struct("Base", [("n", I64), ("a", fa), ("b", fb)]), lab.struct("Extended", [("n", I64), ("m", I64), ("a", fa), ("b", fb)])

            for key, f in mk.items():
                X, Y = f()
                pairs = [(key, X, Y)]
                if key == "struct":
                    pairs.append(("array-of-struct", lab.array("ArrNPair", (None,), (0,), X), lab.array("ArrNPair", (None,), (0,), Y)))
                for k2, X2, Y2 in pairs:
                    res = {}
                    for what, conf in (("_gen_c_api", dict(CONF)), ("_gen_c_decl", {})):
                        if first:
                            I.call(I.getattr(X2, what), [dict(conf)], {})
                        s = I.call(I.getattr(Y2, what), [dict(conf)], {})
                        res[what] = I.getattr(s, "source") if isinstance(s, Obj) else s
                    out[k2] = res
            return None

        res = I.explore(thunk, max_paths=8)
        if len(res) != 1 or res[0]["exc"] is not None:
            e = res[0]["exc"]
            raise AnalysisError(f"[T8] same-named classes cannot be generated: {e.etype if e else 'fork'}: {e.msg if e else res[0]['conds']}")
        return out

    alone, after = world(False), world(True)
    LAB = {"order": "Float64[2,3] after Float64[2:1,3:0]... (C-order class first, then the other-order class of the same name)", "dynorder": "Float64[:,3] of another axis order, same name", "struct": "struct Pair{y, x} after struct Pair{x, y}", "array-of-struct": "Pair{y,x}[:] after Pair{x,y}[:]", "shared-fields": "Extended{n, m, a, b} after Base{n, a, b} declared with the same xo.Field objects for a and b"}
    for key in alone:
        for what in alone[key]:
            a_, b_ = alone[key][what], after[key][what]
            cx.need(isinstance(a_, str) and isinstance(b_, str) and len(a_) > 40, f"[T8] {key}.{what} does not evaluate to source text")
            if a_ == b_:
                cx.ok(None, construct=f"{LAB[key]}: {what} unchanged by the earlier generation", detail="generation depends on the class object only", anchor="capi::gen_code", sub="name")
            else:
                la, lb = a_.splitlines(), b_.splitlines()
                k = next((i for i, (x, y) in enumerate(zip(la, lb)) if x != y), min(len(la), len(lb)))
                cx.bad(None, construct=f"{LAB[key]}: {what} differs from what the class gets alone (line {k}: `{(lb[k] if k < len(lb) else '<end>').strip()[:80]}` instead of `{(la[k] if k < len(la) else '<end>').strip()[:80]}`)",
                       detail=("the generated text depends on what was generated before for ANOTHER class declared with the same Field objects: its accessors read the field position from the first class's header slot" if key == "shared-fields" else "the generated text depends on what was generated before under the same NAME: the second class gets accessors computed for the first one's layout (other strides / field offsets), although declarations and names match and everything compiles"), anchor="capi::gen_code", sub="name")
    cx.floor(8, "same-named class pairs x (API, declarations)")
