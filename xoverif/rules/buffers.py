"""Buffer copy primitives (DESIGN 4.C13): B1 slice extents, B2 copy-vs-view, B3 dispatch, B4 siblings,
and the scalar read/write helpers built on them (C01.R1)."""
import ast

from ..core import rule
from ..flow import Flow
from ..linear import Defs, Lin, Poly
from ..srcmodel import AnalysisError, attr_chain, call_name, get_arg, norm, own_nodes, param_names, short

BUFS = [
    ("context_cpu::BufferByteArray", "bytearray"),
    ("context_cpu::BufferNumpy", "ndarray"),
    ("context_cupy::BufferCupy", "ndarray"),
]

# method -> {base text: (lower-bound parameter, length kind)}
SLICE_SPEC = {
    "update_from_native": {"self.buffer": ("offset", "nbytes"), "source": ("source_offset", "nbytes")},
    "to_native": {"self.buffer": ("offset", "nbytes")},
    "copy_to_native": {"dest": ("dest_offset", "nbytes"), "self.buffer": ("source_offset", "nbytes")},
    "update_from_buffer": {"self.buffer": ("offset", "len(source)")},
    "to_nplike": {"self.buffer": ("offset", "view-bytes")},
    "update_from_nplike": {"self.buffer": ("offset", "value-nbytes")},
    "to_bytearray": {"self.buffer": ("offset", "nbytes")},
    "to_pointer_arg": {"self.buffer": ("offset", "nbytes")},
}
MIN_SLICES = {"context_cpu::BufferByteArray": 7, "context_cpu::BufferNumpy": 8, "context_cupy::BufferCupy": 9}

ABSTRACT_SIG = {
    "update_from_native": ["offset", "source", "source_offset", "nbytes"],
    "copy_to_native": ["dest", "dest_offset", "source_offset", "nbytes"],
    "to_native": ["offset", "nbytes"],
    "update_from_buffer": ["offset", "source"],
    "to_nplike": ["offset", "dtype", "shape"],
    "to_nparray": ["offset", "dtype", "shape"],
    "update_from_nplike": ["offset", "dest_dtype", "value"],
    "to_bytearray": ["offset", "nbytes"],
    "to_pointer_arg": ["offset", "nbytes"],
}


def _value_derived(d, name, root, depth=0):
    """is local `name` derived (through attribute/method chains and reassignments) from `root`?"""
    if name == root:
        return True
    if depth > 5:
        return False
    for v, _ in d.defs_of(name):
        if v is None:
            continue
        for n in ast.walk(v):
            if isinstance(n, ast.Name) and n.id != name and _value_derived(d, n.id, root, depth + 1):
                return True
            if isinstance(n, ast.Name) and n.id == root:
                return True
    return False


def _len_ok(kind, Lp, lin, d, fn):
    """does the slice length poly Lp match the specified length kind?"""
    if kind == "nbytes":
        return Lp == Poly.atom("nbytes"), "nbytes"
    if kind == "len(source)":
        # any spelling of "the number of bytes of the source" (which spelling is right for which kind of source is
        # decided by evaluation: rule B1e)
        forms = ("len(source)", "source.nbytes", "memoryview(source).nbytes", "getattr(source, 'nbytes', len(source))", "len(memoryview(source).cast('B'))", "memoryview(source).cast('B').nbytes")
        if any(Lp == Poly.atom(f_) for f_ in forms):
            return True, "byte length of the source"
        # a local bound on several paths (try: the buffer's nbytes / except TypeError: len()) to such spellings only
        ats = list(Lp.atoms())
        if len(Lp.t) == 1 and len(ats) == 1 and list(Lp.t.values()) == [1] and "." not in ats[0] and "(" not in ats[0]:
            defs = [v for v, _ in d.defs_of(ats[0])]
            if defs and all(v is not None and norm(v) in forms for v in defs):
                return True, "byte length of the source"
        return False, "byte length of the source"
    if kind == "value-nbytes":
        ats = Lp.atoms()
        if len(Lp.t) == 1 and len(ats) == 1 and list(Lp.t.values()) == [1]:
            a = list(ats)[0]
            if a.endswith(".nbytes"):
                base = a[: -len(".nbytes")]
                vname = param_names(fn)[3] if len(param_names(fn)) > 3 else "value"
                try:
                    roots = [n.id for n in ast.walk(ast.parse(base, mode="eval")) if isinstance(n, ast.Name)]
                except SyntaxError:
                    roots = [base]
                return any(_value_derived(d, r, vname) for r in roots), f"{a} (derived from the value)"
        return False, repr(Lp)
    if kind == "view-bytes":
        # prod(shape) * itemsize(dtype)
        txt = repr(Lp)
        ok = ("prod(shape)" in txt) and ("itemsize" in txt) and len(Lp.t) == 1
        return ok, txt
    return False, repr(Lp)


@rule("B1", ["C13", "C04", "C09"], "every slice of a copy primitive is [lo : lo+n] with the documented offset parameter and one common length")
def b1(cx):
    m = cx.m
    for spec, kind in BUFS:
        cls = m.cls(spec)
        meths = m.methods(cls)
        nsl = 0
        for mname, table in SLICE_SPEC.items():
            fn = meths.get(mname)
            if fn is None:
                # alias like `to_nparray = to_nplike` handled in B4
                cx.need(mname in ("to_nparray",), f"{spec}.{mname} not found")
                continue
            d = Defs(fn)
            lin = Lin(d.resolver())
            seen_bases = set()
            for n in own_nodes(fn):
                if not (isinstance(n, ast.Subscript) and isinstance(n.slice, ast.Slice)):
                    continue
                bv = n.value
                while isinstance(bv, ast.Call) and isinstance(bv.func, ast.Name) and bv.func.id == "memoryview" and len(bv.args) == 1:
                    bv = bv.args[0]  # memoryview(x)[a:b] bounds the same bytes of x (for byte-sized items)
                base = norm(bv)
                if base not in table:
                    continue
                lo_par, lkind = table[base]
                sl = n.slice
                if sl.lower is None or sl.upper is None or sl.step is not None:
                    cx.bad(n, detail=f"slice of {base} in {mname} must be [lo : lo+n]; an open or stepped slice does not bound the transfer")
                    continue
                lo, hi = lin.poly(sl.lower), lin.poly(sl.upper)
                nsl += 1
                seen_bases.add(base)
                lo_ok = lo == Poly.atom(lo_par)
                ok_len, ltxt = _len_ok(lkind, hi - lo, lin, d, fn)
                cx.check(lo_ok and ok_len, n, construct=f"{mname}: {base}[{norm(sl.lower)} : {norm(sl.upper)}]",
                         nf=f"lo={lo!r} len={hi - lo!r}",
                         detail=f"starts at `{lo_par}`, length {ltxt}",
                         bad_detail=(f"lower bound is {lo!r}, expected parameter `{lo_par}`" if not lo_ok else f"length is {hi - lo!r}, expected {lkind}"))
            # the primitive must still be expressed through its slices (else the rule no longer matches)
            if mname == "to_nplike" and kind != "ndarray" or (mname == "to_nplike" and spec.endswith("BufferNumpy")):
                continue  # frombuffer form, see B1f
            if mname == "update_from_nplike" and spec.endswith("BufferByteArray"):
                continue  # delegates to update_from_native, see B1d
            missing = set(table) - seen_bases
            if missing == {"self.buffer"}:
                # expressed through a sibling primitive given the very same bounds (to_native = to_pointer_arg(offset, nbytes).copy())
                lo_par, lkind = table["self.buffer"]
                for c in own_nodes(fn):
                    if not (isinstance(c, ast.Call) and isinstance(c.func, ast.Attribute) and norm(c.func.value) == "self" and c.func.attr in SLICE_SPEC and c.func.attr != mname and c.func.attr in meths):
                        continue
                    lo2, kind2 = SLICE_SPEC[c.func.attr].get("self.buffer", (None, None))
                    sig = ABSTRACT_SIG[c.func.attr]
                    bound = {sig[i]: a for i, a in enumerate(c.args) if i < len(sig)}
                    bound.update({k.arg: k.value for k in c.keywords if k.arg})
                    if kind2 == lkind == "nbytes" and set(bound) == set(sig) and all(isinstance(a, ast.Name) for a in bound.values()) and bound[lo2].id == lo_par and bound["nbytes"].id == "nbytes" and len(sig) == 2:
                        cx.ok(c, construct=f"{mname}: self.{c.func.attr}({', '.join(norm(a) for a in c.args)})", detail=f"expressed through {c.func.attr} with the same start `{lo_par}` and length nbytes")
                        nsl += 1
                        missing = set()
                        break
            if missing and spec.startswith("context_cupy"):
                # a GPU buffer class (never executed here, outside the CPU quantifier of C13) written in a form the
                # slice rule does not read: not decided
                cx.note(fn, detail=f"{spec}.{mname}: no slice on {sorted(missing)} (form not read by the slice rule; GPU class: not decided)")
                nsl += len(missing)
                continue
            if missing and spec.startswith("context_cpu"):
                # a CPU primitive written in a form the slice rule does not read (through a helper, a memoryview ...):
                # its extents are decided by evaluation (B1e), what it may keep by the alias analysis (NC2)
                cx.note(fn, detail=f"{spec}.{mname}: no slice on {sorted(missing)} (form not read by the slice rule; decided by B1e / NC2)")
                nsl += len(missing)
                continue
            cx.need(not missing, f"{spec}.{mname}: no slice on {sorted(missing)} found (primitive rewritten?)")
        cx.need(nsl >= MIN_SLICES[spec], f"{spec}: only {nsl} bounded slices found, expected >= {MIN_SLICES[spec]}")
    # frombuffer form of to_nplike (CPU kinds)
    for spec in ("context_cpu::BufferByteArray", "context_cpu::BufferNumpy"):
        fn = m.func(f"{spec}.to_nplike")
        d = Defs(fn)
        lin = Lin(d.resolver())
        calls = [c for c in own_nodes(fn) if isinstance(c, ast.Call) and call_name(c) == "frombuffer"]
        cx.need(len(calls) == 1, f"{spec}.to_nplike: np.frombuffer call not found")
        c = calls[0]
        buf, dt, cnt, off = get_arg(c, 0, "buffer"), get_arg(c, 1, "dtype"), get_arg(c, 2, "count"), get_arg(c, 3, "offset")
        if buf is not None and dt is not None and cnt is None and off is None and isinstance(buf, ast.Subscript) and isinstance(buf.slice, ast.Slice) and buf.slice.lower is not None and buf.slice.upper is not None:
            # slice form: frombuffer(self.buffer[offset : offset + prod(shape)*itemsize], dtype)  (aliasing is rule B2's matter)
            lo, hi = lin.poly(buf.slice.lower), lin.poly(buf.slice.upper)
            ln = hi - lo
            mons = [k for k in ln.t if k != ()]
            shape_ok = len(ln.t) == 1 and len(mons) == 1 and ln.t[mons[0]] == 1 and len(mons[0]) == 2 and any("prod(shape)" in a for a in mons[0]) and any(("itemsize" in a and "dtype" in a) for a in mons[0])
            ok = norm(buf.value) == "self.buffer" and norm(dt) == "dtype" and lo == Poly.atom("offset") and shape_ok
            cx.check(ok, c, construct=f"frombuffer(self.buffer[{norm(buf.slice.lower)}:{norm(buf.slice.upper)}], dtype={norm(dt)})", nf=f"[{lo!r} : {lo!r} + {ln!r}]", detail="typed view of prod(shape) items starting at `offset`",
                     bad_detail="view does not start at `offset` / cover prod(shape)*itemsize bytes of self.buffer", sub="frombuffer")
        else:
            cx.need(None not in (buf, dt, cnt, off), f"{spec}.to_nplike: frombuffer arguments not recognised")
            cnt_p = repr(lin.poly(cnt))
            ok = norm(buf) == "self.buffer" and norm(dt) == "dtype" and lin.poly(off) == Poly.atom("offset") and cnt_p in ("np.prod(shape)", "numpy.prod(shape)", "math.prod(shape)", "int(np.prod(shape))")
            cx.check(ok, c, construct=f"frombuffer(self.buffer, dtype={norm(dt)}, count={norm(cnt)}, offset={norm(off)})", detail="typed view of prod(shape) items starting at `offset`",
                     bad_detail="view does not start at `offset` / cover prod(shape) items of `dtype` of self.buffer", sub="frombuffer")
        # reshaped to the requested shape
        rs = [x for x in own_nodes(fn) if isinstance(x, ast.Call) and call_name(x) == "reshape"]
        cx.check(len(rs) == 1 and norm(rs[0].args[0] if rs[0].args else None) in ("*shape", "shape", "tuple(shape)"), fn if not rs else rs[0], detail="reshaped to `shape`", bad_detail="view is not reshaped to the requested shape", sub="reshape")
    # delegation form (ByteArray.update_from_nplike)
    fn = m.func("context_cpu::BufferByteArray.update_from_nplike")
    d = Defs(fn)
    calls = [c for c in own_nodes(fn) if isinstance(c, ast.Call) and call_name(c) == "update_from_native" and norm(c.func.value) == "self"]
    cx.need(len(calls) == 1, "BufferByteArray.update_from_nplike: delegation to update_from_native not found")
    a = [get_arg(calls[0], k, nm) for k, nm in enumerate(("offset", "source", "source_offset", "nbytes"))]
    cx.need(all(x is not None for x in a), "BufferByteArray.update_from_nplike: arguments of the delegation not recognised")
    vname = param_names(fn)[3]
    src_ok = isinstance(a[1], ast.Attribute) and a[1].attr == "data" and _value_derived(d, norm(a[1].value), vname)
    nb_ok = isinstance(a[3], ast.Attribute) and a[3].attr == "nbytes" and _value_derived(d, norm(a[3].value), vname)
    cx.check(norm(a[0]) == "offset" and src_ok and norm(a[2]) == "0" and nb_ok, calls[0], detail="writes value.nbytes bytes of the (converted) value at `offset`",
             bad_detail="delegation does not transfer exactly the value's bytes from its start to `offset`", sub="delegate")
    # dtype conversion before the transfer
    for spec, _ in BUFS:
        fn = m.func(f"{spec}.update_from_nplike")
        pn = param_names(fn)
        dt, vv = pn[2], pn[3]
        conv = [c for c in own_nodes(fn) if isinstance(c, ast.Call) and call_name(c) == "astype"]
        ok = False
        for c in conv:
            tgt = get_arg(c, 0, "dtype")
            if tgt is not None and norm(tgt) == dt:
                fl = Flow(fn)
                conds = [x for x in fl.conds_at(c) if x.kind == "if"]
                if not conds:
                    ok = True
                dfn = Defs(fn)
                for x in conds:
                    t = x.test
                    if isinstance(t, ast.Name) and dfn.single(t.id) is not None:
                        t = dfn.single(t.id)
                    if isinstance(t, ast.Compare) and len(t.ops) == 1 and isinstance(t.ops[0], ast.NotEq) and x.pol:
                        sides = {norm(t.left), norm(t.comparators[0])}
                        if dt in sides and any(s.endswith(".dtype") for s in sides):
                            ok = True
        if not ok and spec.startswith("context_cpu::"):
            cx.note(fn, construct=f"{spec.split('::')[1]}.update_from_nplike: conversion guard in another shape", detail="decided by rule B1e (evaluation with and without a dtype difference)")
            continue
        if not ok and conv:
            cx.recog(False, conv[0], f"{spec}.update_from_nplike: guard of the dtype conversion")
        cx.check(ok, conv[0] if conv else fn, construct=f"{spec.split('::')[1]}.update_from_nplike: astype({dt}) when dtypes differ", detail="values are converted to the destination dtype before their bytes are copied",
                 bad_detail="no conversion to the destination dtype guards the byte transfer: bytes of another dtype are stored", sub="convert")


def _returns(fn):
    return [n for n in own_nodes(fn) if isinstance(n, ast.Return) and n.value is not None]


def _chain_calls(e):
    """method names applied (outermost last) on the way from the base slice to the result"""
    names = []
    while True:
        if isinstance(e, ast.Call) and isinstance(e.func, ast.Attribute):
            names.append(e.func.attr)
            e = e.func.value
        elif isinstance(e, ast.Call) and isinstance(e.func, ast.Name) and e.args:
            names.append(e.func.id)
            e = e.args[0]
        else:
            break
    return list(reversed(names)), e


def _alias_class(e, d, kind, depth=0):
    """abstract copy/view classification of an expression over the native storage `self.buffer`
    -> 'storage' (the storage object), 'view' (aliases the storage bytes), 'copy' (independent bytes), None (unknown)
    table: slicing a bytearray copies, slicing / reshaping / viewing an ndarray (numpy, cupy) views, np.frombuffer(X)
    aliases X (a view of the storage only if X is the storage or a view of it), copy/bytes/bytearray/tobytes/astype/
    array/ascontiguousarray/get produce independent bytes."""
    if depth > 8:
        return None
    if isinstance(e, ast.Name):
        v = d.single(e.id)
        return _alias_class(v, d, kind, depth + 1) if v is not None else None
    if isinstance(e, ast.Attribute):
        if norm(e) == "self.buffer":
            return "storage"
        if e.attr in ("data", "T"):
            return _alias_class(e.value, d, kind, depth + 1)
        return None
    if isinstance(e, ast.Subscript):
        b = _alias_class(e.value, d, kind, depth + 1)
        if b == "storage":
            return "copy" if kind == "bytearray" else "view"
        return b  # subscript of a numpy view is a view; of a copy stays a copy
    if isinstance(e, ast.Call):
        fn = e.func
        name = fn.attr if isinstance(fn, ast.Attribute) else (fn.id if isinstance(fn, ast.Name) else None)
        recv_is_module = isinstance(fn, ast.Attribute) and isinstance(fn.value, ast.Name) and fn.value.id in ("np", "numpy", "cupy", "cp")
        if name in ("copy", "tobytes", "astype", "get", "tolist", "asnumpy"):
            return "copy"
        if name in ("require", "asfortranarray", "asanyarray", "ascontiguousarray", "asarray") and recv_is_module:
            # numpy's "make it satisfy ..." functions hand the argument back when it already does and a COPY when it does
            # not (np.require with 'A': a misaligned typed view of the storage, i.e. any offset that is not a multiple of
            # the item size): a may-copy
            return "maycopy"
        if name in ("bytearray", "bytes", "array", "ascontiguousarray", "asarray", "copy") and (recv_is_module or isinstance(fn, ast.Name)):
            # np.asarray / ascontiguousarray MAY return the argument itself; as the result of a primitive that must alias
            # or must copy, "may copy" is not good enough either way: classify as copy for viewing, unknown for extracting
            return "copy" if name in ("bytearray", "bytes", "array") else "maycopy"
        if name == "frombuffer" and e.args:
            b = _alias_class(e.args[0], d, kind, depth + 1)
            return "view" if b in ("storage", "view") else b
        if name in ("reshape", "view", "ravel", "squeeze", "transpose", "memoryview") and isinstance(fn, ast.Attribute) and not recv_is_module:
            return _alias_class(fn.value, d, kind, depth + 1)
        if name == "memoryview" and e.args:
            return _alias_class(e.args[0], d, kind, depth + 1)
        return None
    return None


@rule("B2", ["C13"], "extracting primitives return copies, viewing primitives alias the storage")
def b2(cx):
    m = cx.m
    for spec, kind in BUFS:
        cls = m.cls(spec)
        meths = m.methods(cls)
        for mname, want in (("to_native", "copy"), ("to_bytearray", "copy"), ("to_nplike", "view"), ("to_pointer_arg", "view")):
            fn = meths[mname]
            d = Defs(fn)
            rs = _returns(fn)
            cx.need(len(rs) >= 1, f"{spec}.{mname}: no return")
            if mname == "to_pointer_arg" and kind == "bytearray":
                cx.note(rs[0], detail="bytearray slice is a copy (kernel pointer arguments use BufferNumpy storage)")
                continue
            for r in rs:
                got = _alias_class(r.value, d, kind)
                if got is None or (got == "maycopy"):
                    if got == "maycopy" and want == "view":
                        cx.bad(r, construct=f"{mname}: {short(r.value)}", detail="the result may be a copy (np.asarray / ascontiguousarray / require / asfortranarray copy whenever the argument does not already satisfy what they are asked for -- e.g. a typed view at an offset that is not a multiple of the item size is not aligned): writes through the view then do not reach the buffer, later writes to the buffer do not show in it")
                        continue
                    raise AnalysisError(f"[B2] {spec}.{mname}: copy/view class of `{short(r.value)}` cannot be determined")
                if want == "copy":
                    cx.check(got == "copy", r, construct=f"{mname}: {short(r.value)}", nf=f"class = {got}", detail=f"{kind} storage: the extracted data is an independent copy",
                             bad_detail=f"the result aliases the {kind} storage: later writes to the buffer change the extracted data (and the reverse)")
                else:
                    cx.check(got == "view", r, construct=f"{mname}: {short(r.value)}", nf=f"class = {got}", detail="typed view aliases the buffer bytes it covers",
                             bad_detail=f"the result is a view of a COPY of the bytes ({'slicing a bytearray copies' if kind == 'bytearray' else 'a copying call is applied'}): writes through it never reach the buffer and later buffer writes are not seen")


@rule("B3", ["C13", "C09"], "update_from_xbuffer: native copy only for equal contexts, otherwise bytearray round trip with the same arguments")
def b3(cx):
    """evaluated: update_from_xbuffer is run on a buffer whose two primitive writers are recorders, with a source
    living (a) in the same context object, (b) in another one.  (a) must end in exactly one native copy
    (offset, source.buffer, source_offset, nbytes) and no host staging; (b) must extract
    source.to_bytearray(source_offset, nbytes) and write exactly those bytes with update_from_buffer at `offset`,
    and must not hand them to the native copy (which would read them at source_offset again)."""
    from ..peval import Interp, Obj, Opaque, Builtin, Sym
    from ..linear import Poly
    m = cx.m
    fn = m.func("context::XBuffer.update_from_xbuffer")
    pn = param_names(fn)
    cx.need(pn == ["self", "offset", "source", "source_offset", "nbytes"], "update_from_xbuffer: unexpected signature")
    OFFS, SOFF, NB = (Sym(Poly.atom(x)) for x in ("offset", "source_offset", "nbytes"))

    def bind(names, a, k):
        out = dict(zip(names, a))
        out.update(k)
        return out

    def consts_of(I):
        """integer constants the function's control flow can depend on: its own literals and the module-level integers
        it names (block sizes, thresholds).  They give the WITNESS sizes on which a form whose shape depends on nbytes
        (block-wise staging) is evaluated when the symbolic evaluation is not decided."""
        out = set()
        for nd in ast.walk(fn):
            if isinstance(nd, ast.Constant) and isinstance(nd.value, int) and not isinstance(nd.value, bool) and nd.value > 1:
                out.add(nd.value)
            elif isinstance(nd, ast.Name):
                try:
                    v = I.global_lookup("context", nd.id)
                except Exception:
                    continue
                if isinstance(v, int) and not isinstance(v, bool) and v > 1:
                    out.add(v)
        return sorted(out)

    def evaluate(same, nb):
        I = Interp(m)
        XB = I.global_lookup("context", "XBuffer")
        log = []
        c1, c2 = Obj("instance", {}, name="ctxA"), Obj("instance", {}, name="ctxB")
        srcbuf = Opaque("source.buffer")
        staged = []

        def rec(kind, names):
            return Builtin(kind, lambda *a, **k: log.append((kind, bind(names, a, k))))

        def tba(*a, **k):
            st = Opaque(f"staged-bytes-{len(staged)}")
            staged.append(st)
            d = bind(("offset", "nbytes"), a, k)
            d["result"] = st
            log.append(("to_bytearray", d))
            return st

        me = Obj("instance", {"context": c1, "buffer": Opaque("self.buffer"),
                              "update_from_native": rec("update_from_native", ("offset", "source", "source_offset", "nbytes")),
                              "update_from_buffer": rec("update_from_buffer", ("offset", "source"))}, cls=XB)
        src = Obj("instance", {"context": c1 if same else c2, "buffer": srcbuf, "to_bytearray": Builtin("to_bytearray", tba),
                               "to_nplike": Builtin("to_nplike", lambda *a, **k: (log.append(("to_nplike", {})), Opaque("nplike"))[1])}, cls=XB)
        res = I.explore(lambda: I.call(I.getattr(me, "update_from_xbuffer"), [OFFS, src, SOFF, nb], {}), max_paths=8)
        return I, res, log, srcbuf

    def tiles(log, nb):
        """the staged pieces, in the order they are made, must tile the request: piece i is extracted at
        source_offset + (sum of the earlier lengths) and written at offset + (the same sum); the lengths add up to
        nbytes.  Returns '' or what is wrong."""
        from ..peval import topoly
        pos = Poly.const(0)
        ext = [e for e in log if e[0] == "to_bytearray"]
        wr = [e for e in log if e[0] == "update_from_buffer"]
        if any(e[0] == "update_from_native" for e in log):
            return "hands the staged bytes to the native copy"
        if not ext or len(ext) != len(wr):
            return f"{len(ext)} extraction(s), {len(wr)} write(s)"
        for e, w in zip(ext, wr):
            eo, en, wo = topoly(e[1].get("offset")), topoly(e[1].get("nbytes")), topoly(w[1].get("offset"))
            if eo is None or en is None or wo is None:
                return "an extent that is not an integer expression"
            if w[1].get("source") is not e[1]["result"]:
                return "a piece is written that is not the piece just extracted"
            if eo != topoly(SOFF) + pos or wo != topoly(OFFS) + pos:
                return f"piece at source_offset+{eo - topoly(SOFF)!r} written at offset+{wo - topoly(OFFS)!r}, expected +{pos!r} for both"
            pos = pos + en
        if pos != topoly(nb):
            return f"the pieces cover {pos!r} bytes, requested {topoly(nb)!r}"
        return ""

    for same in (True, False):
        label = f"update_from_xbuffer, source in {'the same' if same else 'another'} context"
        undecided = None
        try:
            I, res, log, srcbuf = evaluate(same, NB)
            cx.recog(len(res) == 1 and res[0]["exc"] is None, fn, f"update_from_xbuffer ({'same' if same else 'other'} context): evaluation did not end in one normal path ({[str(r['exc']) for r in res][:2]})")
        except AnalysisError as e:
            if same:
                raise
            undecided = e
        if undecided is not None:
            # the form depends on the size (block-wise staging): not decided symbolically.  Witness sizes around the
            # constants the function names can still REFUTE it (a piece outside the request is a positive finding);
            # they cannot prove it -- without a refutation the answer stays "not decided"
            I0 = Interp(m)
            cs = consts_of(I0)
            wit = sorted({0, 1, 7, 8, 9} | {w for c in cs if c <= (1 << 24) for w in (c - 1, c, c + 1, c + 9, 2 * c, 2 * c + 1, 2 * c + 8, 3 * c + 1, 3 * c + 2)})
            for nbw in wit:
                try:
                    I, res, log, srcbuf = evaluate(False, nbw)
                except AnalysisError:
                    continue
                if len(res) != 1 or res[0]["exc"] is not None:
                    continue
                why = tiles(log, nbw)
                if why:
                    cx.bad(None, construct=label + ": pieces", detail=f"for nbytes = {nbw}: {why} -- bytes outside [offset, offset + nbytes) are read and written (the symbolic evaluation was not decided: {str(undecided)[:120]})", anchor="context::XBuffer.update_from_xbuffer", sub="pieces")
                    break
            else:
                raise undecided
            continue
        writes = [e for e in log if e[0] in ("update_from_native", "update_from_buffer")]

        def is_(v, want):
            return v is want or (isinstance(v, Sym) and isinstance(want, Sym) and v == want)

        if same:
            ok = len(writes) == 1 and writes[0][0] == "update_from_native" and all(is_(writes[0][1].get(k), w) for k, w in (("offset", OFFS), ("source", srcbuf), ("source_offset", SOFF), ("nbytes", NB)))
            ok = ok and not any(e[0] in ("to_bytearray", "to_nplike") for e in log)
            cx.check(ok, None, construct=label, detail="one native copy (offset, source.buffer, source_offset, nbytes), no staging through the host", bad_detail=f"same-context copy is not the native copy of (offset, source.buffer, source_offset, nbytes): {[(k, {a: repr(b) for a, b in d.items()}) for k, d in log]}", anchor="context::XBuffer.update_from_xbuffer", sub="native")
        else:
            why = tiles(log, NB)
            cx.check(not why, None, construct=label + ": pieces", detail="the staged piece(s) tile the request: extracted from the source at source_offset (+ what came before), written at offset (+ the same), nbytes in all", bad_detail=f"cross-context copy: {why}: {[(k, {a: repr(b) for a, b in d.items() if a != 'result'}) for k, d in log]}", anchor="context::XBuffer.update_from_xbuffer", sub="pieces")


@rule("B4", ["C13"], "sibling buffer classes implement the abstract signature with the same parameter order")
def b4(cx):
    m = cx.m
    xb = m.methods(m.cls("context::XBuffer"))
    for mname, sig in ABSTRACT_SIG.items():
        if mname in xb:
            got = param_names(xb[mname])[1:]
            cx.check(got == sig, xb[mname], construct=f"XBuffer.{mname}({', '.join(got)})", detail="abstract signature", bad_detail=f"abstract signature changed, expected {sig}", sub="abstract")
    for spec, kind in BUFS:
        cls = m.cls(spec)
        meths = m.methods(cls)
        aliases = {}
        for st in cls.body:
            if isinstance(st, ast.Assign) and isinstance(st.targets[0], ast.Name) and isinstance(st.value, ast.Name):
                aliases[st.targets[0].id] = st.value.id
        for mname, sig in ABSTRACT_SIG.items():
            fn = meths.get(mname)
            if fn is None and mname in aliases:
                tgt = aliases[mname]
                cx.check(ABSTRACT_SIG.get(tgt) == sig and tgt in meths, cls, construct=f"{spec.split('::')[1]}.{mname} = {tgt}", detail="alias of a sibling with the same signature", bad_detail="alias to a method with another signature")
                continue
            cx.need(fn is not None, f"{spec}.{mname} missing")
            got = param_names(fn)[1:]
            # parameter names may differ (pyopencl uses arr); positions and count must agree
            same = len(got) == len(sig) and all(g == s or (s == "value" and g in ("arr", "value")) for g, s in zip(got, sig))
            cx.check(same, fn, construct=f"{spec.split('::')[1]}.{mname}({', '.join(got)})", detail="matches the abstract parameter order", bad_detail=f"parameter order {got} differs from {sig}")


@rule("SC", ["C01", "C13", "C03", "C11"], "scalar read/write helpers use one dtype, one size and the declared argument order")
def sc(cx):
    """evaluated: every exported numeric scalar type is instantiated from its declaration with a model of np.dtype /
    np.frombuffer that records what it is given; the four buffer helpers are run against a recording buffer:
    read = element 0 of frombuffer(to_bytearray(offset, itemsize), that dtype) with no extra offset/count;
    write = update_from_buffer(offset, dtype.type(value).tobytes()); array write = update_from_buffer(offset,
    value.tobytes()); array read = to_nplike(offset, that dtype, (count,))."""
    from ..peval import Interp, Obj as _Obj, Opaque as _Op, Builtin as _B, Sym as _Sym, Namespace as _NS
    from ..linear import Poly as _Poly
    m = cx.m
    m.cls("scalar::NumpyScalar")
    SIZES = {"float64": 8, "float32": 4, "int64": 8, "uint64": 8, "int32": 4, "uint32": 4, "int16": 2, "uint16": 2, "int8": 1, "uint8": 1}
    NAMES = {"float64": "Float64", "float32": "Float32", "int64": "Int64", "uint64": "UInt64", "int32": "Int32", "uint32": "UInt32", "int16": "Int16", "uint16": "UInt16", "int8": "Int8", "uint8": "UInt8"}
    OFFS = _Sym(_Poly.atom("offset"))
    n = 0
    for dt, nm in NAMES.items():
        I = Interp(m)
        made = {}

        def dtype(name, _I=I):
            if isinstance(name, _Obj):
                return name
            d = _Obj("dtype", {"name": name, "itemsize": SIZES.get(name, 16), "str": name}, name=f"dtype({name})")

            def conv(v=0):
                # dtype.type(x): one number (0-d) for a scalar x, an ARRAY of the nested sequence's shape for a sequence x
                # (its bytes are prod(shape) items long; len() is its FIRST extent)
                shape = []
                w = v
                while isinstance(w, (list, tuple)):
                    shape.append(len(w))
                    w = w[0] if w else None
                count = 1
                for d_ in shape:
                    count *= d_

                def tobytes():
                    b_ = _Obj("bytes", {"__len__": _B("len", lambda: count * SIZES.get(name, 16))}, name=f"bytes-of {name}({v!r})")
                    b_.src = ("bytes-of", name, v)
                    return b_

                attrs = {"tobytes": _B("tobytes", tobytes), "dtype": d, "ndim": len(shape), "shape": tuple(shape), "size": count, "nbytes": count * SIZES.get(name, 16), "itemsize": SIZES.get(name, 16)}
                if shape:
                    attrs["__len__"] = _B("len", lambda: shape[0])
                return _Obj("npscalar", attrs, name=f"{name}({v!r})")

            d.attrs["type"] = _B(f"{name}.type", conv)
            made[name] = d
            return d

        def frombuffer(data, *a, **k):
            dd = a[0] if a else k.pop("dtype", None)
            extra = dict(k)
            if len(a) > 1:
                extra["positional"] = a[1:]
            return _Obj("decoded", {"__getitem__": _B("decoded[]", lambda i: ("elem", data, dd, i, tuple(sorted(extra))))}, name="decoded")

        np_ = I.np
        I.np = _NS("np", dict(np_.table, dtype=_B("np.dtype", dtype), frombuffer=_B("np.frombuffer", frombuffer)))
        log = []
        buf = _Obj("instance", {}, name="buf")

        def bind(names, a, k):
            out = dict(zip(names, a))
            out.update(k)
            return out

        buf.attrs["to_bytearray"] = _B("to_bytearray", lambda *a, **k: (log.append(("to_bytearray", bind(("offset", "nbytes"), a, k))), ("raw", len(log)))[1])
        buf.attrs["update_from_buffer"] = _B("update_from_buffer", lambda *a, **k: log.append(("update_from_buffer", bind(("offset", "source"), a, k))))
        buf.attrs["to_nplike"] = _B("to_nplike", lambda *a, **k: (log.append(("to_nplike", bind(("offset", "dtype", "shape"), a, k))), _Op("nplike"))[1])
        out = {}

        def thunk():
            T = I.global_lookup("scalar", nm)
            out["T"] = T
            out["read"] = I.call(I.getattr(T, "_from_buffer"), [buf, OFFS], {})
            k0 = len(log)
            I.call(I.getattr(T, "_to_buffer"), [buf, OFFS, _Op("val")], {})
            out["w"] = log[k0:]
            k0 = len(log)
            arr = _Obj("value", {"tobytes": _B("tobytes", lambda: ("array-bytes",))}, name="arr")
            I.call(I.getattr(T, "_array_to_buffer"), [buf, OFFS, arr], {})
            out["aw"] = log[k0:]
            k0 = len(log)
            out["ar"] = I.call(I.getattr(T, "_array_from_buffer"), [buf, OFFS, _Sym(_Poly.atom("count"))], {})
            out["arl"] = log[k0:]

        res = I.explore(thunk, max_paths=8)
        cx.recog(len(res) == 1 and res[0]["exc"] is None, None, f"scalar {nm}: helper evaluation did not end in one normal path ({res[0]['exc'] if res else ''})")
        n += 1
        T = out["T"]
        d = made.get(dt)
        size = SIZES[dt]
        anchor = "scalar::NumpyScalar"
        cx.check(d is not None and T.attrs.get("_dtype") is d and T.attrs.get("_size") == size, None, construct=f"{nm}: _dtype = dtype('{dt}'), _size = {size}", detail="dtype from the declared name, size = its itemsize",
                 bad_detail=f"{nm}: _dtype {T.attrs.get('_dtype')!r}, _size {T.attrs.get('_size')!r}", sub="init", anchor=anchor + ".__init__")
        rd = [e for e in log if e[0] == "to_bytearray"]
        r = out["read"]
        okr = len(rd) == 1 and rd[0][1].get("offset") == OFFS and rd[0][1].get("nbytes") == size and isinstance(r, tuple) and r[0] == "elem" and r[1] == ("raw", 1) and r[2] is d and r[3] == 0 and not r[4]
        cx.check(okr, None, construct=f"{nm}._from_buffer: element 0 of frombuffer(to_bytearray(offset, {size}), dtype('{dt}'))", detail="reads exactly its own bytes and decodes them with its dtype",
                 bad_detail=f"read is {r!r} after {rd!r}", sub="read", anchor=anchor + "._from_buffer")
        w = out["w"]
        srcw = getattr(w[0][1].get("source"), "src", None) if len(w) == 1 else None
        okw = len(w) == 1 and w[0][0] == "update_from_buffer" and w[0][1].get("offset") == OFFS and isinstance(srcw, tuple) and srcw[:2] == ("bytes-of", dt) and isinstance(srcw[2], _Op) and srcw[2].tag == "val"
        cx.check(okw, None, construct=f"{nm}._to_buffer: update_from_buffer(offset, dtype('{dt}').type(value).tobytes())", detail="value converted with its dtype, its bytes written at offset",
                 bad_detail=f"write is {[(k, {a: repr(b) for a, b in dct.items()}) for k, dct in w]}", sub="write", anchor=anchor + "._to_buffer")
        # a SEQUENCE given for one number must not be written (its bytes are longer than the slot) -- flat, nested with a
        # leading extent of 1 (len() == 1, three numbers), a column, a pair
        for seq in ([7, 8, 9], [[7, 8, 9]], [[7], [8]], (7, 8), [[[1, 2]]]):
            k1 = len(log)
            seq_exc = None
            try:
                r2 = I.explore(lambda: I.call(I.getattr(T, "_to_buffer"), [buf, OFFS, seq], {}), max_paths=4)
                seq_exc = r2[0]["exc"] if len(r2) == 1 else "fork"
            except AnalysisError as e_:
                raise AnalysisError(f"[SC] scalar {nm}: _to_buffer of {seq!r} cannot be evaluated: {e_}")
            wrote = [e_ for e_ in log[k1:] if e_[0] == "update_from_buffer"]
            cx.recog(seq_exc != "fork", None, f"scalar {nm}: _to_buffer of a sequence: evaluation forks")
            if seq_exc is not None and getattr(seq_exc, "etype", "") in ("AttributeError", "NameError"):
                raise AnalysisError(f"[SC] scalar {nm}: _to_buffer of {seq!r}: {seq_exc.etype}: {seq_exc.msg} (model of the converted value)")
            nnum = 1
            w_ = seq
            while isinstance(w_, (list, tuple)):
                nnum *= len(w_)
                w_ = w_[0]
            cx.check(seq_exc is not None and not wrote, None, construct=f"{nm}._to_buffer(buffer, offset, {seq!r})", detail="a sequence is refused for a scalar slot, nothing is written",
                     bad_detail=f"{nnum} numbers are written into the {size}-byte slot of one {nm} ({nnum * size} bytes): the next field / item / object is overwritten", sub="write.len", anchor=anchor + "._to_buffer")
        aw = out["aw"]
        cx.check(len(aw) == 1 and aw[0][0] == "update_from_buffer" and aw[0][1].get("offset") == OFFS and aw[0][1].get("source") == ("array-bytes",), None, construct=f"{nm}._array_to_buffer: update_from_buffer(offset, value.tobytes())", detail="array bytes written at offset",
                 bad_detail=f"array write is {aw!r}", sub="array-write", anchor=anchor + "._array_to_buffer")
        arl = out["arl"]
        shp = arl[0][1].get("shape") if arl else None
        oka = len(arl) == 1 and arl[0][0] == "to_nplike" and arl[0][1].get("offset") == OFFS and arl[0][1].get("dtype") is d and isinstance(shp, tuple) and len(shp) == 1 and shp[0] == _Sym(_Poly.atom("count")) and isinstance(out["ar"], _Op) and out["ar"].tag == "nplike"
        cx.check(oka, None, construct=f"{nm}._array_from_buffer: to_nplike(offset, dtype('{dt}'), (count,))", detail="count items of its dtype viewed at offset",
                 bad_detail=f"array read is {arl!r}", sub="array-read", anchor=anchor + "._array_from_buffer")
    cx.need(n == 10, f"{n} scalar kinds evaluated")
