"""Dependency emission rules D1-D5 (DESIGN 4.C14)."""
import ast

from ..core import rule
from ..flow import Flow
from ..linear import Defs
from ..srcmodel import param_names, short, AnalysisError, call_name, norm, own_nodes, short


@rule("D1", ["C14"], "the cycle flag of topological_sort is consumed: sort_classes raises before returning anything")
def d1(cx):
    m = cx.m
    f = m.func("context::sort_classes")
    fl = Flow(f)
    calls = [s for s in own_nodes(f) if isinstance(s, ast.Assign) and isinstance(s.value, ast.Call) and call_name(s.value) == "topological_sort"]
    cx.need(len(calls) == 1, "sort_classes: call of topological_sort not found")
    st = calls[0]
    t = st.targets[0]
    cx.need(isinstance(t, ast.Tuple) and len(t.elts) == 2, "sort_classes: result of topological_sort is not unpacked into (order, has_cycle)")
    flag = norm(t.elts[1])
    ok = False
    for r in [x for x in own_nodes(f) if isinstance(x, ast.Raise)]:
        if any(norm(c.test) == flag and c.pol for c in fl.conds_at(r)):
            rets = [x for x in own_nodes(f) if isinstance(x, ast.Return)]
            if all(fl.ordered_before(r, x) for x in rets) and fl.ordered_before(st, r):
                ok = True
    cx.check(ok, st, construct=f"{short(st)} ; if {flag}: raise", detail="a dependency cycle is reported as an error before any list is returned",
             bad_detail="the cycle flag is not tested by a raising `if` before the return: cyclic dependencies produce source in arbitrary order")
    # topological_sort returns the flag computed from what is left over
    ts = m.func("context::topological_sort")
    d = Defs(ts)
    rets = [x for x in own_nodes(ts) if isinstance(x, ast.Return)]
    cx.need(len(rets) == 1 and isinstance(rets[0].value, ast.Tuple) and len(rets[0].value.elts) == 2, "topological_sort: `return result, has_cycle` expected")
    fv = rets[0].value.elts[1]
    fdef = d.single(fv.id) if isinstance(fv, ast.Name) else fv
    cx.check(fdef is not None and norm(fdef) in ("bool(graph)", "len(graph) > 0", "len(graph) != 0"), rets[0], construct=f"has_cycle = {norm(fdef)}", detail="a cycle is whatever Kahn's loop could not remove",
             bad_detail="the cycle flag is not `bool(graph)` after the removal loop", sub="flag")


@rule("D2", ["C14"], "hybrid classes in fields / declared dependencies / kernel arguments are mapped to their struct classes")
def d2(cx):
    m = cx.m
    # hybrid classes are mapped to their struct
    mh = m.func("hybrid_class::MetaHybridClass.__new__")
    src = norm(mh)
    cx.recog("_XoStruct" in src, mh, "MetaHybridClass.__new__: mapping of hybrid classes to _XoStruct")
    cx.check("_depends_on[ii] = tt._XoStruct" in src and "xofields[nn] = tt._XoStruct" in norm(m.func("hybrid_class::_build_xofields_dict")) and "aa.atype = aa.atype._XoStruct" in src, mh,
             construct="hybrid classes in _xofields/_depends_on/kernel args -> their _XoStruct", detail="dependencies are expressed in struct classes (which have C APIs)",
             bad_detail="a hybrid class is not replaced by its _XoStruct in fields/_depends_on/kernel args", sub="hybrid")



@rule("D2s", ["C14"], "sort_classes (diagnostic): both dependency sources collected, transitive closure, an edge per dependency")
def d2s(cx):
    m = cx.m
    f = m.func("context::sort_classes")
    fl = Flow(f)
    outer = [l for l in f.body if isinstance(l, ast.For)]
    cx.need(len(outer) == 1, "sort_classes: single outer loop expected")
    lp = outer[0]
    cv = norm(lp.target)
    it = norm(lp.iter)
    ext = [c for c in ast.walk(lp) if isinstance(c, ast.Call) and call_name(c) == "extend"]
    srcs = {norm(c.args[0]) for c in ext if c.args}
    cx.check({f"{cv}._get_inner_types()", f"{cv}._depends_on"} <= srcs, lp, construct=f"deps of {cv}: {sorted(srcs)}", detail="structural inner types and declared dependencies are both collected",
             bad_detail=f"dependency sources are {sorted(srcs)}; both _get_inner_types() and _depends_on are required", sub="sources")
    for c in ext:
        conds = [x for x in fl.conds_at(c) if x.kind == "if"]
        okc = all(call_name(x.test) == "hasattr" and x.pol for x in conds if isinstance(x.test, ast.Call)) and all(isinstance(x.test, ast.Call) for x in conds)
        cx.check(okc, c, construct=f"{short(c)} under {[x.text() for x in conds]}", detail="collected whenever the class has the attribute", bad_detail="dependency source is skipped under an unrelated condition", sub="sources")
    inner = [l for l in ast.walk(lp) if isinstance(l, ast.For) and l is not lp]
    cx.need(len(inner) == 1, "sort_classes: inner loop over the collected dependencies expected")
    il = inner[0]
    dv = norm(il.target)
    # transitive closure: new dependencies are appended to the list being iterated
    apps = [c for c in ast.walk(il) if isinstance(c, ast.Call) and call_name(c) == "append"]
    to_iter = [c for c in apps if norm(c.func.value) == it and norm(c.args[0]) == dv]
    cx.check(len(to_iter) == 1 and any("not in" in x.text() or "not (" in x.text() for x in fl.conds_at(to_iter[0]) if x.kind == "if"), to_iter[0] if to_iter else il,
             construct=f"{it}.append({dv}) when first seen (the list being iterated)", detail="dependencies of dependencies are visited by the same loop (transitive closure)",
             bad_detail="a newly discovered dependency is not appended to the list being iterated: its own dependencies are never collected", sub="closure")
    names = [c for c in apps if norm(c.args[0]) == f"{dv}.__name__"]
    uncond = names and not [x for x in fl.conds_at(names[0]) if x.kind == "if" and id(x.test) not in {id(y.test) for y in fl.conds_at(il)}]
    cx.check(bool(uncond), names[0] if names else il, construct=f"edge {cv} -> {dv} recorded for every dependency", detail="every dependency (new or already known) becomes an edge of the graph",
             bad_detail="an edge is recorded only for newly discovered classes: order between already-known classes is lost", sub="edges")
    asg = [s for s in lp.body if isinstance(s, ast.Assign) and isinstance(s.targets[0], ast.Subscript) and norm(s.targets[0].slice) == f"{cv}.__name__"]
    cx.check(len(asg) == 1 and names and norm(asg[0].value) == norm(names[0].func.value), asg[0] if asg else lp, construct=f"deps[{cv}.__name__] = <edge list>", detail="one entry per class, keyed by name",
             bad_detail="the dependency list is not stored under the class name", sub="edges")


@rule("D4", ["C14"], "topological_sort: every node enters the result exactly once (disjoint frontier sources, Kahn bookkeeping)")
def d4(cx):
    m = cx.m
    f = m.func("context::topological_sort")
    fl = Flow(f)
    d = Defs(f)
    src = f.args.args[0].arg
    # graph construction
    build = [l for l in f.body if isinstance(l, ast.For) and norm(l.iter) == f"{src}.items()"]
    cx.need(len(build) == 1, "topological_sort: graph construction loop over source.items() not found")
    b = build[0]
    cv, pv = [norm(e) for e in b.target.elts]
    inner = [l for l in b.body if isinstance(l, ast.For)]
    cx.need(len(inner) == 1 and norm(inner[0].iter) == pv, "topological_sort: loop over parents not found")
    pl = norm(inner[0].target)
    body = " ; ".join(norm(s) for s in inner[0].body)
    ok = f"graph.setdefault({pl}, []).append({cv})" in body and f"num_parents[{cv}] += 1" in body
    cx.check(ok, inner[0], construct=body, detail="edge parent->child and in-degree of the child, once per dependency", bad_detail="graph/in-degree construction is not (graph[parent] += child ; num_parents[child] += 1)", sub="build")
    # frontier
    res = d.defs_of("result")
    cx.need(len(res) == 1 and isinstance(res[0][0], ast.ListComp), "topological_sort: `result = [...]` initial frontier not found")
    lc = res[0][0]
    g = lc.generators[0]
    first_ok = norm(g.iter) == f"{src}.items()" and len(g.ifs) == 1 and norm(g.ifs[0]) in (f"len({norm(g.target.elts[1])}) == 0", f"not {norm(g.target.elts[1])}") and norm(lc.elt) == norm(g.target.elts[0])
    cx.check(first_ok, res[0][1], construct=short(res[0][1]), detail="first frontier: keys of the source with no parents (unique: dict keys)", bad_detail="first frontier is not the parent-less keys of the source", sub="frontier")
    exts = [c for c in own_nodes(f) if isinstance(c, ast.Call) and call_name(c) == "extend" and norm(c.func.value) == "result"]
    pre = [c for c in exts if not fl.loops_at(c) and not [x for x in fl.conds_at(c) if x.kind == "if"]]
    for c in pre:
        a = c.args[0]
        if isinstance(a, ast.ListComp) and norm(a.generators[0].iter) == "graph":
            g = a.generators[0]
            tv = norm(g.target)
            conj = []
            for t in g.ifs:
                conj.extend(t.values if isinstance(t, ast.BoolOp) and isinstance(t.op, ast.And) else [t])
            zero = any(norm(t) == f"num_parents[{tv}] == 0" for t in conj)
            excl = any(norm(t) == f"{tv} not in {src}" for t in conj)
            cx.check(zero and excl, c, construct=short(c, 150), detail="second frontier: zero in-degree parents that are NOT keys of the source (disjoint from the first frontier)",
                     bad_detail="second frontier overlaps the first: a class without dependencies that others depend on is listed twice (duplicate typedef/API emission)" if zero else "second frontier is not filtered on zero in-degree", sub="frontier")
        else:
            raise AnalysisError(f"[D4] unrecognised frontier source `{short(c)}`")
    # Kahn loop
    kl = [l for l in f.body if isinstance(l, ast.For) and norm(l.iter) == "result"]
    cx.need(len(kl) == 1, "topological_sort: removal loop `for parent in result` not found")
    k = kl[0]
    pv2 = norm(k.target)
    txt = norm(k)
    dec = [s for s in ast.walk(k) if isinstance(s, ast.AugAssign) and isinstance(s.op, ast.Sub) and norm(s.target).startswith("num_parents[")]
    cx.check(len(dec) == 1 and norm(dec[0].value) == "1", dec[0] if dec else k, construct=short(dec[0]) if dec else "no decrement", detail="one in-degree unit per removed edge", bad_detail="in-degree is not decremented by exactly 1 per edge", sub="kahn")
    apps = [c for c in ast.walk(k) if isinstance(c, ast.Call) and call_name(c) == "append" and norm(c.func.value) == "result"]
    ok = False
    if len(apps) == 1 and dec:
        ch = norm(apps[0].args[0])
        conds = [x for x in fl.conds_at(apps[0]) if x.kind == "if"]
        ok = any(norm(x.test) == f"num_parents[{ch}] == 0" and x.pol for x in conds) and norm(dec[0].target) == f"num_parents[{ch}]" and fl.ordered_before(dec[0], apps[0])
        loops = fl.loops_at(apps[0])
        ok = ok and len(loops) == 2 and norm(loops[-1].iter) == f"graph[{pv2}]"
    cx.check(ok, apps[0] if apps else k, construct="child appended when its in-degree reaches 0, while scanning graph[parent]", detail="a node is emitted only after all of its dependencies",
             bad_detail="children are not appended exactly when their last dependency has been emitted", sub="kahn")
    dels = [s for s in ast.walk(k) if isinstance(s, ast.Delete) and norm(s.targets[0]) == f"graph[{pv2}]"]
    cx.check(len(dels) == 1, dels[0] if dels else k, construct=f"del graph[{pv2}]", detail="processed parents leave the graph (what remains is the cycle)", bad_detail="processed parents are not removed from the graph", sub="kahn")


@rule("D5", ["C14"], "the sorted class list is used in order: API sources, cdefs, headers < class sources < user sources on every context")
def d5(cx):
    m = cx.m
    # evaluated: one API source per class in the order given, each followed by the class's extra sources
    from ..peval import Builtin as _B, Interp as _I, Obj as _O
    f = m.func("context::sources_from_classes")
    I = _I(m)
    c1 = _O("class", {"__name__": "A", "_gen_c_api": _B("api", lambda: "apiA"), "_extra_c_sources": ["xA1", "xA2"]}, name="A")
    c2 = _O("class", {"__name__": "B", "_gen_c_api": _B("api", lambda: "apiB")}, name="B")
    c3 = _O("class", {"__name__": "C", "_gen_c_api": _B("api", lambda: "apiC"), "_extra_c_sources": []}, name="C")
    res = I.explore(lambda: I.call(I.global_lookup("context", "sources_from_classes"), [[c2, c1, c3]], {}), max_paths=4)
    cx.recog(len(res) == 1 and res[0]["exc"] is None, f, f"sources_from_classes: evaluation did not end in one normal path ({res[0]['exc'] if res else ''})")
    got = list(res[0]["result"])
    cx.check(got == ["apiB", "apiA", "xA1", "xA2", "apiC"], f, construct=f"sources_from_classes([B, A, C]) -> {got}", detail="one API source per class, in the given order, each followed by its extra sources", bad_detail="class API sources are not emitted once per class in list order (expected ['apiB', 'apiA', 'xA1', 'xA2', 'apiC'])")
    # (that sort_classes returns the classes in dependency order is decided by rule DG)
    for spec, hdr in (("context_cpu::ContextCpu", "headers"), ("context_cupy::ContextCupy", "headers"), ("context_pyopencl::ContextPyopencl", "headers")):
        cls = m.cls(spec)
        ms = m.methods(cls)
        bk = ms["build_kernels"]
        fl = Flow(bk)
        srt = [s for s in own_nodes(bk) if isinstance(s, ast.Assign) and isinstance(s.value, ast.Call) and call_name(s.value) == "sort_classes"]
        cx.need(len(srt) == 1, f"{spec}.build_kernels: sort_classes call not found")
        tgt = norm(srt[0].targets[0])
        holder = ms.get("_build_sources", bk)
        sfc = [c for c in own_nodes(holder) if isinstance(c, ast.Call) and call_name(c) == "sources_from_classes"]
        cx.need(len(sfc) == 1, f"{spec}: sources_from_classes call not found")
        if holder is bk:
            ok = norm(sfc[0].args[0]) == tgt and fl.ordered_before(srt[0], sfc[0])
        else:
            calls = [c for c in own_nodes(bk) if isinstance(c, ast.Call) and call_name(c) == "_build_sources"]
            kw = {k.arg: norm(k.value) for c in calls for k in c.keywords}
            ok = len(calls) == 1 and kw.get("classes") == tgt and fl.ordered_before(srt[0], calls[0]) and norm(sfc[0].args[0]) == "classes"
        cx.check(ok, srt[0], construct=f"{spec.split('::')[1]}: {tgt} = sort_classes(...) -> sources_from_classes({tgt})", detail="API sources are generated from the sorted list", bad_detail="class sources are not generated from the sorted class list", sub="use")
        cat = [s for s in own_nodes(holder) if isinstance(s, ast.Assign) and norm(s.targets[0]) == "sources" and isinstance(s.value, ast.BinOp)]
        okc = any(norm(s.value) == "headers + cls_sources + sources" for s in cat)
        cx.check(okc, cat[-1] if cat else holder, construct="sources = headers + cls_sources + sources", detail="headers, then class APIs (in dependency order), then user sources", bad_detail="source concatenation order is not headers + class sources + user sources", sub="concat")
    bk = m.func("context_cpu::ContextCpu.build_kernels")
    cd = [s for s in own_nodes(bk) if isinstance(s, ast.Assign) and norm(s.targets[0]) == "cdefs"]
    cx.check(bool(cd) and "for cls in classes" in norm(cd[0].value) and "_gen_c_decl" in norm(cd[0].value), cd[0] if cd else bk, construct=short(cd[0], 120) if cd else "?", detail="cffi declarations follow the same sorted list (typedefs before use)", bad_detail="cffi declarations are not generated from the sorted class list", sub="cdefs")


@rule("D6", ["C14"], "what a class contributes to a build (API source, declarations, kernels, paths, inner types) is computed from that class: no memo that a subclass can inherit")
def d6(cx):
    """A generator that stores its result on the class (`cls._x = result`) and looks it up again with an attribute
    lookup that follows inheritance (`getattr(cls, '_x', None)`, `cls._x`, `hasattr(cls, '_x')`) hands a subclass the
    result of its base class: the base's API is emitted twice and the subclass's not at all (seeded C14-b).  A memo is
    accepted when it is read from the class's own namespace (`cls.__dict__` / `vars(cls)`)."""
    m = cx.m
    GEN = ("_gen_c_api", "_gen_c_decl", "_gen_kernels", "_gen_data_paths", "_get_inner_types", "_gen_c_api_h")
    n = 0
    for modname in ("struct", "array", "ref", "string", "hybrid_class"):
        for fn in m.all_functions(modname):
            if fn.name not in GEN:
                continue
            n += 1
            params = param_names(fn)
            if not params:
                continue
            c0 = params[0]
            stored = {}
            for st in own_nodes(fn):
                if isinstance(st, ast.Assign):
                    for t in st.targets:
                        if isinstance(t, ast.Attribute) and norm(t.value) == c0:
                            stored[t.attr] = st
                if isinstance(st, ast.Call) and call_name(st) in ("setattr",) and len(st.args) == 3 and norm(st.args[0]) == c0 and isinstance(st.args[1], ast.Constant):
                    stored[st.args[1].value] = st
            if not stored:
                cx.ok(fn, construct=f"{m.qualname(fn).split('::')[1]}: nothing is memoised on the class", detail="the result is recomputed from the class's own fields / item type / members", trivial=True)
                continue
            for attr, st in stored.items():
                reads = []
                for x in own_nodes(fn):
                    if isinstance(x, ast.Attribute) and isinstance(x.ctx, ast.Load) and x.attr == attr and norm(x.value) == c0:
                        reads.append(x)
                    if isinstance(x, ast.Call) and call_name(x) in ("getattr", "hasattr") and len(x.args) >= 2 and norm(x.args[0]) == c0 and isinstance(x.args[1], ast.Constant) and x.args[1].value == attr:
                        reads.append(x)
                own = [x for x in own_nodes(fn) if isinstance(x, (ast.Subscript, ast.Call, ast.Compare)) and (f"{c0}.__dict__" in norm(x) or f"vars({c0})" in norm(x)) and repr(attr) in norm(x)]
                if reads:
                    cx.bad(reads[0], construct=f"{m.qualname(fn).split('::')[1]}: memo `{c0}.{attr}` read with {short(reads[0], 60)}", detail=f"the lookup follows inheritance: a class derived from a class whose `{attr}` is already set gets the BASE class's result as its own (its own API/declarations are never generated, the base's are emitted again)")
                elif own:
                    cx.ok(st, construct=f"{m.qualname(fn).split('::')[1]}: memo `{attr}` read from the class's own namespace", detail="a subclass does not see its base's memo")
                else:
                    cx.note(st, construct=f"{m.qualname(fn).split('::')[1]}: stores `{c0}.{attr}`, never read here", detail="not a memo of this function")
    cx.need(n >= 8, f"only {n} generator methods found")


@rule("DG", ["C14"], "sort_classes, evaluated on every dependency graph of up to four classes: each class once, after everything it depends on; cycles refused")
def dg(cx):
    """`sort_classes` / `topological_sort` of the current source are evaluated by the checker's interpreter on abstract
    classes (a name, inner types, declared `_depends_on`) for EVERY directed graph on up to 4 classes (3 in the quick
    tier are exhaustive over all edge sets incl. cycles; 4 exhaustive in the thorough tier) and every non-empty set of
    roots handed to it.  Required: acyclic -> the result lists every class reachable from the roots exactly once and
    every class after all classes it depends on; a class that cannot generate an API (scalar-like: no `_gen_c_api`) is
    left out; cyclic -> ValueError.  Dependency graphs are type-level configuration (like class descriptors), not data."""
    import itertools

    from ..peval import Builtin, Interp, Obj

    m = cx.m
    I = Interp(m)
    f = m.func("context::sort_classes")
    nmax = 4 if cx.tier == "thorough" else 3
    n_graphs = n_ok = 0
    bad_seen = 0
    for n in range(1, nmax + 1):
        pairs = [(a, b) for a in range(n) for b in range(n) if a != b]
        for mask in range(1 << len(pairs)):
            edges = [p for k, p in enumerate(pairs) if mask >> k & 1]
            # transitive closure / cycle test (oracle side, plain python)
            reach = {a: {b for x, b in edges if x == a} for a in range(n)}
            changed = True
            while changed:
                changed = False
                for a in range(n):
                    new = set().union(*[reach[b] for b in reach[a]]) if reach[a] else set()
                    if not new <= reach[a]:
                        reach[a] |= new
                        changed = True
            root_sets = [(n - 1,)] if n > 1 else [(0,)]
            root_sets += [tuple(range(n))] + ([tuple(reversed(range(n)))] if n > 1 else [])
            for roots in root_sets:
                reachable = set(roots) | set().union(*[reach[r] for r in roots])
                cyclic = any(a in reach[a] for a in reachable)
                n_graphs += 1
                out = {}

                def thunk():
                    objs = []
                    keep = []
                    for k in range(n):
                        o = Obj("class", {"__name__": f"K{k}", "_gen_c_api": Builtin("api", lambda k=k: f"api{k}")}, name=f"K{k}")
                        objs.append(o)
                    for k in range(n):
                        deps = [objs[b] for a, b in edges if a == k]
                        # half through inner types, half through _depends_on (both sources must be honoured)
                        inner, declared = deps[::2], deps[1::2]
                        # (union references hand out their OWN member list, structs a new list: classes with an odd number
                        # do the former -- sorting must leave members and declared dependencies as they were)
                        own = list(inner)
                        objs[k].attrs["_get_inner_types"] = Builtin("inner", (lambda own=own: own) if k % 2 else (lambda inner=inner: list(inner)))
                        objs[k].attrs["_depends_on"] = list(declared)
                        keep.append((k, own, list(inner), objs[k].attrs["_depends_on"], list(declared)))
                    res = I.call(I.global_lookup("context", "sort_classes"), [[objs[r] for r in roots]], {})
                    out["res"] = [I.getattr(c, "__name__") for c in res]
                    out["frame"] = [f"K{k}: " + ("members" if own != inner0 else "_depends_on") + f" changed from {[I.getattr(c, '__name__') for c in (inner0 if own != inner0 else decl0)]} to {[I.getattr(c, '__name__') for c in (own if own != inner0 else decl)]}"
                                    for k, own, inner0, decl, decl0 in keep if own != inner0 or decl != decl0]
                    return None

                res = I.explore(thunk, max_paths=4)
                label = f"classes {n}, edges {edges}, roots {list(roots)}"
                if len(res) != 1:
                    raise AnalysisError(f"[DG] {label}: evaluation forks")
                exc = res[0]["exc"]
                if cyclic:
                    if not (exc is not None and exc.etype == "ValueError"):
                        bad_seen += 1
                        if bad_seen <= 3:
                            cx.bad(f, construct=label, detail=f"a dependency cycle is not refused (result {out.get('res')}): the emitted source uses a type before its definition")
                    else:
                        n_ok += 1
                    continue
                if exc is not None:
                    if exc.etype in ("AttributeError", "NameError"):
                        raise AnalysisError(f"[DG] sort_classes cannot be evaluated: {exc.etype}: {exc.msg}")
                    bad_seen += 1
                    if bad_seen <= 3:
                        cx.bad(f, construct=label, detail=f"sort_classes raises {exc.etype} on an acyclic graph: {exc.msg}")
                    continue
                got = out["res"]
                want = {f"K{k}" for k in reachable}
                probs = []
                if sorted(got) != sorted(want):
                    miss, dup = sorted(want - set(got)), sorted({x for x in got if got.count(x) > 1})
                    probs.append((f"missing {miss}" if miss else "") + (f" duplicated {dup}" if dup else "") + (f" unexpected {sorted(set(got) - want)}" if set(got) - want else ""))
                pos = {nm: i for i, nm in enumerate(got)}
                for a, b in edges:
                    if f"K{a}" in pos and f"K{b}" in pos and pos[f"K{b}"] > pos[f"K{a}"]:
                        probs.append(f"K{b} is emitted after K{a}, which depends on it")
                        break
                if out.get("frame") and not probs:
                    bad_seen += 1
                    if bad_seen <= 3:
                        cx.bad(f, construct=f"{label}: sorting edits the classes", detail=out["frame"][0] + ": sort_classes must only read the classes (the next build sees the edited members / dependencies: ids of union members shift, dependencies accumulate)", sub="frame")
                    continue
                if probs:
                    bad_seen += 1
                    if bad_seen <= 3:
                        cx.bad(f, construct=f"{label} -> {got}", detail="; ".join(p for p in probs if p) + ": each class API must be emitted exactly once, after all of its dependencies")
                else:
                    n_ok += 1
    # ---- a class given again under the same name replaces the earlier one ("the last one is used"): the class that
    # is emitted must be the later object, and it is ITS dependencies that must be collected and ordered before it
    n_over = bad_over = 0
    for old_deps in ((), (1,), (2,)):
        for new_deps in ((), (1,), (2,), (1, 2)):
            for k1k2 in (False, True):
                for order in (("old", "new"), ("old", "new", 2), (2, "old", "new"), ("old", 1, "new"), ("new", "old", "new")):
                    n_over += 1
                    out = {}

                    def thunk():
                        mk = lambda nm: Obj("class", {"__name__": nm, "_gen_c_api": Builtin("api", lambda: nm), "_depends_on": []}, name=nm)
                        k1, k2, old, new = mk("K1"), mk("K2"), mk("K0"), mk("K0")
                        by = {1: k1, 2: k2, "old": old, "new": new}
                        old.attrs["_get_inner_types"] = Builtin("inner", lambda: [by[d] for d in old_deps])
                        new.attrs["_get_inner_types"] = Builtin("inner", lambda: [by[d] for d in new_deps[:1]])
                        new.attrs["_depends_on"] = [by[d] for d in new_deps[1:]]
                        k1.attrs["_get_inner_types"] = Builtin("inner", lambda: [k2] if k1k2 else [])
                        k2.attrs["_get_inner_types"] = Builtin("inner", lambda: [])
                        res = I.call(I.global_lookup("context", "sort_classes"), [[by[x] for x in order]], {})
                        out["res"] = list(res)
                        out["new"], out["k1"], out["k2"] = new, k1, k2
                        return None

                    res = I.explore(thunk, max_paths=4)
                    label = f"K0 given twice (first with dependencies {['K%d' % d for d in old_deps]}, last with {['K%d' % d for d in new_deps]}), K1 -> K2: {k1k2}, classes handed over {list(order)}"
                    if len(res) != 1:
                        raise AnalysisError(f"[DG] {label}: evaluation forks")
                    if res[0]["exc"] is not None:
                        if res[0]["exc"].etype in ("AttributeError", "NameError"):
                            raise AnalysisError(f"[DG] sort_classes cannot be evaluated: {res[0]['exc'].etype}: {res[0]['exc'].msg}")
                        probs = [f"raises {res[0]['exc'].etype}"]
                    else:
                        got = out["res"]
                        names = [I.getattr(c, "__name__") for c in got]
                        probs = []
                        k0 = [c for c in got if I.getattr(c, "__name__") == "K0"]
                        if len(k0) != 1 or k0[0] is not out["new"]:
                            probs.append(f"K0 is emitted {len(k0)} times / not as the class given last")
                        need = {"K%d" % d for d in new_deps} | ({"K2"} if k1k2 and 1 in new_deps else set())
                        if not need <= set(names):
                            probs.append(f"the dependencies {sorted(need - set(names))} of the emitted K0 are never emitted")
                        pos = {nm: i for i, nm in enumerate(names)}
                        for d in need & set(names):
                            if "K0" in pos and pos[d] > pos["K0"] and d in {"K%d" % x for x in new_deps}:
                                probs.append(f"{d} is emitted after K0, which depends on it")
                        if k1k2 and "K1" in pos and "K2" in pos and pos["K2"] > pos["K1"]:
                            probs.append("K2 is emitted after K1, which depends on it")
                        if len(names) != len(set(names)):
                            probs.append(f"duplicates in {names}")
                    if probs:
                        bad_over += 1
                        if bad_over <= 2:
                            cx.bad(f, construct=label + (f" -> {[I.getattr(c, '__name__') for c in out.get('res', [])]}" if out.get("res") is not None else ""), detail="; ".join(probs) + ": the class that is emitted is the last one given for its name, with its own dependencies before it", sub="override")
    # ---- the earlier class of the name is not handed over itself but REACHED as a dependency of an earlier root (a kernel
    # argument class holding the class that extra_classes then replaces): still "the last one is used"
    for new_deps in ((), (2,)):
        for how in ("inner", "declared"):
            for order in ((1, "new"), ("new", 1), (1, 2, "new"), (2, 1, "new")):
                n_over += 1
                out = {}

                def thunk():
                    mk = lambda nm: Obj("class", {"__name__": nm, "_gen_c_api": Builtin("api", lambda: nm), "_depends_on": []}, name=nm)
                    k1, k2, old, new = mk("K1"), mk("K2"), mk("K0"), mk("K0")
                    by = {1: k1, 2: k2, "old": old, "new": new}
                    old.attrs["_get_inner_types"] = Builtin("inner", lambda: [])
                    new.attrs["_get_inner_types"] = Builtin("inner", lambda: [by[d] for d in new_deps])
                    k1.attrs["_get_inner_types"] = Builtin("inner", lambda: [old] if how == "inner" else [])
                    k1.attrs["_depends_on"] = [old] if how == "declared" else []
                    k2.attrs["_get_inner_types"] = Builtin("inner", lambda: [])
                    res = I.call(I.global_lookup("context", "sort_classes"), [[by[x] for x in order]], {})
                    out["res"] = list(res)
                    out["new"] = new
                    return None

                res = I.explore(thunk, max_paths=4)
                label = f"K1 depends ({how}) on a class K0; another class K0 (dependencies {['K%d' % d for d in new_deps]}) is handed over as well, classes handed over {list(order)}"
                if len(res) != 1:
                    raise AnalysisError(f"[DG] {label}: evaluation forks")
                if res[0]["exc"] is not None:
                    if res[0]["exc"].etype in ("AttributeError", "NameError"):
                        raise AnalysisError(f"[DG] sort_classes cannot be evaluated: {res[0]['exc'].etype}: {res[0]['exc'].msg}")
                    probs = [f"raises {res[0]['exc'].etype}"]
                else:
                    got = out["res"]
                    names = [I.getattr(c, "__name__") for c in got]
                    probs = []
                    k0 = [c for c in got if I.getattr(c, "__name__") == "K0"]
                    if len(k0) != 1 or k0[0] is not out["new"]:
                        probs.append(f"K0 is emitted {len(k0)} times / not as the class HANDED OVER under that name (the one a dependency reaches took its place)")
                    pos = {nm: i for i, nm in enumerate(names)}
                    if "K0" in pos and "K1" in pos and pos["K0"] > pos["K1"]:
                        probs.append("K0 is emitted after K1, which depends on it")
                    for d in new_deps:
                        if f"K{d}" not in pos:
                            probs.append(f"K{d}, a dependency of the K0 handed over, is never emitted")
                        elif "K0" in pos and pos[f"K{d}"] > pos["K0"]:
                            probs.append(f"K{d} is emitted after K0, which depends on it")
                    if len(names) != len(set(names)):
                        probs.append(f"duplicates in {names}")
                if probs:
                    bad_over += 1
                    if bad_over <= 2:
                        cx.bad(f, construct=label + (f" -> {[I.getattr(c, '__name__') for c in out.get('res', [])]}" if out.get("res") is not None else ""), detail="; ".join(probs) + ": the result must not depend on the order in which the classes are handed over", sub="override")
    if not bad_over:
        cx.ok(f, construct=f"{n_over} cases of a class given again under the same name", detail="the last one is emitted, once, after its own dependencies", sub="override")
    if bad_seen > 3:
        cx.insts[-1].detail += f" (+{bad_seen - 3} more graphs)"
    if not bad_seen:
        cx.ok(f, construct=f"{n_graphs} (graph, roots) cases over up to {nmax} classes", detail="every reachable class exactly once and after its dependencies; cycles refused")
    cx.need(n_graphs >= 150, f"only {n_graphs} graphs evaluated")


@rule("D7", ["C14"], "classes made one after the other: the dependency / source / kernel containers of a class are its own (defining another class, also a hybrid class declaring dependencies, leaves them as they were), and sort_classes of a class defined EARLIER is unchanged by later definitions")
def d7(cx):
    """Class definition is a history too: metaclasses run once per class statement and hybrid classes EXTEND the
    `_depends_on` of their struct in place.  Evaluated in one interpreter: struct S1 (no declared dependencies), struct
    Dep, derived struct S3(S1), then hybrid classes H (declares `_depends_on = [Dep]`) and G (declares none).  Required:
    `_depends_on`, `_extra_c_sources`, `_kernels` of S1, Dep, S3, H._XoStruct, G._XoStruct and the base class are pairwise
    distinct objects; after all definitions S1 / S3 / G._XoStruct still declare nothing and H._XoStruct declares exactly
    Dep; sort_classes([S1]) = [S1] and sort_classes([H._XoStruct]) = [Dep, H._XoStruct]."""
    from ..peval import Interp, Obj
    from .layout import Lab

    m = cx.m
    f = m.func("struct::MetaStruct.__new__")
    m.func("hybrid_class::MetaHybridClass.__new__")
    lab = Lab(m)
    I = lab.I
    out = {}

    def thunk():
        F = I.global_lookup("scalar", "Float64")
        S0 = I.global_lookup("struct", "Struct")
        S1 = lab.struct("S1", [("a", F)])
        Dep = lab.struct("Dep", [("d", F)])
        MS = I.global_lookup("struct", "MetaStruct")
        S3 = I.call(I.class_attrs(MS)["__new__"], [MS, "S3", (S1,), {"b": F}], {})
        MH = I.global_lookup("hybrid_class", "MetaHybridClass")
        HC = I.global_lookup("hybrid_class", "HybridClass")
        H = I.call(I.getattr(MH, "__new__"), [MH, "H", (HC,), {"_xofields": {"x": F}, "_depends_on": [Dep]}], {})
        G = I.call(I.getattr(MH, "__new__"), [MH, "G", (HC,), {"_xofields": {"y": F}}], {})
        classes = {"Struct": S0, "S1": S1, "Dep": Dep, "S3": S3, "H._XoStruct": I.getattr(H, "_XoStruct"), "G._XoStruct": I.getattr(G, "_XoStruct")}
        out["attrs"] = {nm: {a: I.getattr(c, a) if I.hasattr(c, a) is True else None for a in ("_depends_on", "_extra_c_sources", "_kernels")} for nm, c in classes.items()}
        sc = I.global_lookup("context", "sort_classes")
        out["sorted"] = {nm: [I.getattr(c, "__name__") for c in I.call(sc, [[classes[nm]]], {})] for nm in ("S1", "S3", "G._XoStruct", "H._XoStruct")}
        out["names"] = {nm: [I.getattr(c, "__name__") for c in v["_depends_on"]] if v["_depends_on"] is not None else None for nm, v in out["attrs"].items()}
        return None

    res = I.explore(thunk, max_paths=8)
    if len(res) != 1 or res[0]["exc"] is not None:
        e = res[0]["exc"]
        if e is not None and e.etype == "ValueError":
            cx.bad(f, construct="struct S1; struct Dep; struct S3(S1); hybrid H(_depends_on=[Dep]); hybrid G; sort_classes", detail=f"raises ValueError: {e.msg} -- an acyclic set of classes is refused after these definitions", sub="history")
            return
        raise AnalysisError(f"[D7] class definitions cannot be evaluated: {e.etype + ': ' + str(e.msg) if e else res[0]['conds']}")
    at = out["attrs"]
    names = list(at)
    for a in ("_depends_on", "_extra_c_sources", "_kernels"):
        shared = [(x, y) for i, x in enumerate(names) for y in names[i + 1:] if at[x][a] is not None and at[x][a] is at[y][a]]
        cx.check(not shared, f, construct=f"`{a}` of Struct, S1, Dep, S3(S1), H._XoStruct, G._XoStruct", detail="six distinct containers: a class extending its own does not edit another class's",
                 bad_detail=(f"{shared[0][0]} and {shared[0][1]} share ONE `{a}` object ({len(shared)} shared pairs): whatever one class (a hybrid class declaring dependencies extends it in place) adds, every other class gets too" if shared else ""), sub="own")
    want = {"S1": [], "Dep": [], "S3": [], "G._XoStruct": [], "H._XoStruct": ["Dep"]}
    wrong = {k: out["names"][k] for k in want if out["names"][k] != want[k]}
    cx.check(not wrong, f, construct="declared dependencies after all definitions: " + ", ".join(f"{k}: {out['names'][k]}" for k in want), detail="only H declares a dependency (Dep)",
             bad_detail=(f"{next(iter(wrong))} now declares {wrong[next(iter(wrong))]}: a later class definition changed the dependencies of an earlier / unrelated class" if wrong else ""), sub="history")
    wants = {"S1": ["S1"], "S3": ["S3"], "G._XoStruct": ["G"], "H._XoStruct": ["Dep", "H"]}
    for k, w in wants.items():
        got = out["sorted"][k]
        ok = got == w or (k.endswith("_XoStruct") and [g.replace("Data", "").replace("_XoStruct", "") for g in got] == w) or (len(got) == len(w) and got[:-1] == w[:-1])
        cx.check(ok, f, construct=f"sort_classes([{k}]) = {got}", detail="the class and exactly what it depends on", bad_detail=f"expected {w} (own class last): classes defined later leak into the dependencies of this one", sub="history")
