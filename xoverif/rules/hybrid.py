"""Hybrid class rules H1-H5 (C18), dictionary/JSON rules J1-J3 (C19), pickle state rules P1-P4 (C20)."""
import ast

from ..core import rule
from ..flow import Flow
from ..linear import Defs
from ..srcmodel import AnalysisError, call_name, get_arg, norm, own_nodes, param_names, short

HC = "hybrid_class::HybridClass"
FD = "hybrid_class::_FieldOfDressed"
MHC = "hybrid_class::MetaHybridClass"


@rule("H1", ["C18"], "move is refused for nested objects and for objects containing references, before anything is rebuilt")
def h1(cx):
    m = cx.m
    f = m.func(f"{HC}.move")
    fl = Flow(f)
    rs = [r for r in own_nodes(f) if isinstance(r, ast.Raise)]
    rebuild = [s for s in own_nodes(f) if isinstance(s, ast.Assign) and norm(s.targets[0]) == "self._xobject"]
    cx.need(len(rebuild) == 1, "move: reconstruction `self._xobject = ...` not found")
    # The refusal predicate is decided as a truth table over the three flags the documentation names:
    #   refuse  <=>  (not _movable and not _force_moveable)  or  (_has_refs and not _force_moveable)
    # Each raise contributes the conjunction of all its enclosing/preceding guard conditions; the
    # function's refusal predicate is their disjunction.  Any refactoring of the guards (factored common
    # test, nested ifs, De Morgan forms) has the same table; a dropped or weakened guard does not.
    LEAVES = {"self._movable": "m", "self._force_moveable": "f", "self._xobject._has_refs": "h"}
    dmv = Defs(f)

    class _NR(Exception):
        pass

    def bev(e, env, depth=0):
        if isinstance(e, ast.Name) and depth < 5 and dmv.single(e.id) is not None:
            return bev(dmv.single(e.id), env, depth + 1)
        t = norm(e)
        if t in LEAVES:
            return env[LEAVES[t]]
        if isinstance(e, ast.UnaryOp) and isinstance(e.op, ast.Not):
            return not bev(e.operand, env, depth)
        if isinstance(e, ast.BoolOp):
            vals = [bev(v, env, depth) for v in e.values]
            return all(vals) if isinstance(e.op, ast.And) else any(vals)
        if isinstance(e, ast.Constant) and isinstance(e.value, bool):
            return e.value
        if isinstance(e, ast.Call) and norm(e.func) == "bool" and len(e.args) == 1:
            return bev(e.args[0], env, depth)
        if isinstance(e, ast.Compare) and len(e.ops) == 1 and isinstance(e.ops[0], (ast.Is, ast.Eq, ast.IsNot, ast.NotEq)) and isinstance(e.comparators[0], ast.Constant) and isinstance(e.comparators[0].value, bool):
            v = bev(e.left, env, depth) == e.comparators[0].value
            return v if isinstance(e.ops[0], (ast.Is, ast.Eq)) else not v
        raise _NR(short(e, 60))

    import itertools as _it
    table, bad_rows = {}, []
    try:
        for mv, fv, hv in _it.product((False, True), repeat=3):
            env = {"m": mv, "f": fv, "h": hv}
            got = any(all(bev(c.test, env) == c.pol for c in fl.conds_at(r) if c.kind == "if") for r in rs)
            exp = (not mv and not fv) or (hv and not fv)
            table[(mv, fv, hv)] = got
            if got != exp:
                bad_rows.append(f"_movable={mv} _force_moveable={fv} _has_refs={hv}: move {'refuses' if got else 'proceeds'}, documented: {'refuses' if exp else 'proceeds'}")
    except _NR as e_:
        cx.recog(False, f, f"HybridClass.move: guard condition `{e_}` is not over _movable/_force_moveable/_has_refs")
    cx.check(not bad_rows, f, construct="move: refusal predicate over (_movable, _force_moveable, _has_refs), 8 rows", detail="refuses exactly when nested-and-not-forced or has-references-and-not-forced",
             bad_detail="move's refusal condition differs from the documented one: " + "; ".join(bad_rows[:3]))
    late = [r for r in rs if not fl.ordered_before(r, rebuild[0])]
    cx.check(not late, late[0] if late else f, construct="move: every refusal precedes the reconstruction", detail=f"{len(rs)} raise statement(s), all before `self._xobject = ...`", bad_detail="move rebuilds the object elsewhere before it refuses", sub="order")
    v = rebuild[0].value
    ok = isinstance(v, ast.Call) and norm(v.func) in ("self._xobject.__class__", "type(self._xobject)", "self._XoStruct") and len(v.args) == 1 and norm(v.args[0]) == "self._xobject" and {k.arg: norm(k.value) for k in v.keywords} == {"_context": "_context", "_buffer": "_buffer", "_offset": "_offset"}
    cx.check(ok, rebuild[0], construct=short(rebuild[0], 130), detail="copy-construction of the same struct class at the target", bad_detail="move does not copy-construct the struct at the requested target", sub="rebuild")
    cp = m.func(f"{HC}.copy")
    dcp = Defs(cp)

    def res(e, depth=0):
        while isinstance(e, ast.Name) and depth < 5:
            d1 = dcp.single(e.id)
            if d1 is None:
                break
            e, depth = d1, depth + 1
        return e

    rets = [r_ for r_ in own_nodes(cp) if isinstance(r_, ast.Return)]
    cx.need(len(rets) >= 1, "HybridClass.copy: no return")
    ok = True
    why = ""
    for r_ in rets:
        v = res(r_.value)
        good = isinstance(v, ast.Call) and norm(v.func) in ("self.__class__", "type(self)") and not v.args and [k.arg for k in v.keywords] == ["_xobject"]
        if not good:
            ok, why = False, f"copy returns `{short(r_.value, 60)}`, which is not a new hybrid object dressing a new struct"
            continue
        xo = res(v.keywords[0].value)
        kws = {}
        if isinstance(xo, ast.Call):
            for k in xo.keywords:
                if k.arg is not None:
                    kws[k.arg] = norm(k.value)
                else:  # **mapping: a dict literal bound to a local
                    dd = res(k.value)
                    if isinstance(dd, ast.Dict) and all(isinstance(q, ast.Constant) for q in dd.keys):
                        kws.update({q.value: norm(w) for q, w in zip(dd.keys, dd.values)})
                    else:
                        kws["**"] = norm(k.value)
        good = (isinstance(xo, ast.Call) and norm(xo.func) in ("self._XoStruct", "self._xobject.__class__") and len(xo.args) == 1 and norm(xo.args[0]) == "self._xobject"
                and kws == {"_context": "_context", "_buffer": "_buffer", "_offset": "_offset"})
        if not good:
            ok, why = False, f"the struct handed to the new object is `{short(xo, 80)}`, not a copy-construction of self._xobject at the requested placement"
    cx.check(ok, cp, construct="copy: new struct copy-constructed from self._xobject, dressed by a new hybrid object", detail="copy never returns or re-dresses the original storage", bad_detail=why or "copy does not build a fresh copy-constructed struct", sub="copy")


@rule("H2", ["C18"], "a hybrid object stored in another becomes non-movable; the dressed child views the container's field")
def h2(cx):
    m = cx.m
    f = m.func(f"{FD}.__set__")
    fl = Flow(f)
    sets = [c for c in own_nodes(f) if isinstance(c, ast.Call) and call_name(c) == "setattr" and len(c.args) == 3 and norm(c.args[0]) == "container" and "_dressed_" in norm(c.args[1])]
    cx.need(len(sets) >= 2, "_FieldOfDressed.__set__: expected the two stores of a dressed child")
    for s in sets:
        x = norm(s.args[2])
        st = fl.stmt(s)
        blk = None
        p = st.parent
        for fld in ("body", "orelse"):
            b = getattr(p, fld, None)
            if isinstance(b, list) and st in b:
                blk = b
        cx.need(blk is not None, "cannot locate the block of the dressed-child store")
        marks = [q for q in blk if isinstance(q, ast.Assign) and norm(q.targets[0]) == f"{x}._movable" and norm(q.value) == "False"]
        cx.check(len(marks) >= 1, s, construct=f"{short(s)} ; {x}._movable = False", detail="the stored child is marked as living inside another object",
                 bad_detail=f"`{x}` is stored as a nested object without `_movable = False`: it can later be moved out from under its container")
        cx.check(norm(s.args[1]) == "'_dressed_' + self.name", s, construct=f"key {norm(s.args[1])}", detail="keyed by the struct field name", bad_detail="dressed child stored under another key than '_dressed_'+struct field name", sub="key")
    # copy arm: _xobject restored after __dict__.update
    ups = [c for c in own_nodes(f) if isinstance(c, ast.Call) and call_name(c) == "update" and norm(c.func.value).endswith(".__dict__")]
    cx.need(len(ups) == 1, "_FieldOfDressed.__set__: `<new>.__dict__.update(value.__dict__)` not found")
    x = norm(ups[0].func.value)[: -len(".__dict__")]
    own_view = "getattr(container._xobject, self.name)"
    restores = [s for s in own_nodes(f) if isinstance(s, ast.Assign) and norm(s.targets[0]) == f"{x}._xobject" and norm(s.value) == own_view]
    restores += [fl.stmt(c) for c in own_nodes(f) if isinstance(c, ast.Call) and norm(c.func) == f"{x}._reinit_from_xobject" and (get_arg(c, 0, "_xobject") is not None and norm(get_arg(c, 0, "_xobject")) == own_view)]
    ok = any(fl.ordered_before(ups[0], s) for s in restores)
    cx.check(ok, ups[0], construct=f"{short(ups[0])} ; {x}._xobject := getattr(container._xobject, self.name)", detail="the python-side copy clobbers _xobject, which is then pointed back at the container's field (directly or through _reinit_from_xobject)",
             bad_detail="after copying the python attributes the child's _xobject is not restored to the container's field: the child keeps viewing the source object's storage", sub="restore")
    ctor = [s for s in own_nodes(f) if isinstance(s, ast.Assign) and norm(s.targets[0]) == x]
    ok = len(ctor) == 1 and norm(ctor[0].value) == "value.__class__(_xobject=getattr(container._xobject, self.name))"
    cx.check(ok, ctor[0] if ctor else f, construct=short(ctor[0], 130) if ctor else "?", detail="dressed child is built on the container's own field view", bad_detail="dressed child is not built from the container's field", sub="child")
    # the value is written into the container's struct
    wr = [c for c in own_nodes(f) if isinstance(c, ast.Call) and call_name(c) == "setattr" and len(c.args) == 3 and norm(c.args[0]) == "container._xobject"]
    cx.check(len(wr) == 2 and all(norm(c.args[1]) == "self.name" for c in wr), wr[0] if wr else f, construct="setattr(container._xobject, self.name, <value>) on both arms", detail="assignment goes through the struct field (copy for plain fields, reference for Ref fields)",
             bad_detail="an assignment arm does not write the container's struct field", sub="write")
    # cross-buffer reference assignment is refused, before the struct field is written
    raises = [r for r in own_nodes(f) if isinstance(r, ast.Raise)]
    hit = None
    for r in raises:
        txt = " & ".join(c.text() for c in fl.conds_at(r) if c.kind == "if")
        if "Ref)" in txt and ("value._buffer is not container._buffer" in txt or "value._buffer != container._buffer" in txt):
            hit = r
    cx.check(hit is not None and all(fl.ordered_before(hit, w) or not fl.may_follow(w, hit) for w in wr), hit or f, construct="Ref field and value in another buffer -> raise MemoryError, before any write",
             detail="sharing across buffers is refused (a reference cannot leave its buffer)", bad_detail="assigning a hybrid object of another buffer to a reference field is not refused (a silent copy is referenced instead)", sub="refuse")
    # reinit
    r = m.func(f"{HC}._reinit_from_xobject")
    src = norm(r)
    ok = "ff.ftype._DressingClass(_xobject=getattr(_xobject, ff.name))" in src and "for ff in self._XoStruct._fields" in src
    cx.check(ok, r, construct="_reinit_from_xobject: child = DressingClass(_xobject=getattr(_xobject, ff.name)) for every nested hybrid field", detail="nested dressed parts view the (possibly relocated) struct", bad_detail="nested dressed parts are not rebuilt from the new xobject", sub="reinit")


BOUND = ("_xobject", "_dressed_<nested>", "_dressed_<ref>")


def _reinit_revalidates(m, cx=None):
    """what `_reinit_from_xobject` re-derives on the handle it is called on: `_xobject` (assigned first), the dressed
    child of every nested hybrid field (rebuilt from `getattr(_xobject, ff.name)`), and -- only if the validation
    branch exists -- the dressed object kept for a reference field (dropped unless it views the referent)."""
    r = m.func(f"{HC}._reinit_from_xobject")
    got = set()
    src = norm(r)
    if any(isinstance(x, ast.Assign) and norm(x.targets[0]) == "self._xobject" and norm(x.value) == "_xobject" for x in r.body):
        got.add("_xobject")
    if "ff.ftype._DressingClass(_xobject=getattr(_xobject, ff.name))" in src and "for ff in self._XoStruct._fields" in src:
        got.add("_dressed_<nested>")
    # validation branch: a `del self.__dict__['_dressed_' + ff.name]` (or pop/delattr) guarded by a disjunction that is
    # true whenever buffer or offset of the referent differ from the dressed object's
    fl = Flow(r)
    for st in own_nodes(r):
        drops = False
        if isinstance(st, ast.Delete) and any("'_dressed_' + ff.name" in norm(t) for t in st.targets):
            drops = True
        if isinstance(st, ast.Expr) and isinstance(st.value, ast.Call) and call_name(st.value) in ("pop", "delattr") and "'_dressed_' + ff.name" in norm(st.value):
            drops = True
        if not drops:
            continue
        conds = [c for c in fl.conds_at(st) if c.kind == "if"]
        txt = " ; ".join(c.text() for c in conds)
        has_ref_kind = "isinstance(ff.ftype, Ref)" in txt or "_reftype" in txt
        guard = conds[-1] if conds else None
        ok = False
        if guard is not None and guard.pol and isinstance(guard.test, ast.BoolOp) and isinstance(guard.test.op, ast.Or):
            parts = [norm(v) for v in guard.test.values]
            buf = any(("_buffer is not " in q or "_buffer != " in q) for q in parts)
            off = any(("_offset != " in q) for q in parts)
            ok = buf and off
        if ok and has_ref_kind:
            got.add("_dressed_<ref>")
    return got


@rule("H6", ["C18", "C09"], "bulk copies of python attributes between hybrid handles never leave storage-bound attributes (_xobject, _dressed_<field>) of the source in the destination")
def h6(cx):
    """`_xobject` and every `_dressed_<field>` of a hybrid handle VIEW storage.  Several sites copy a whole `__dict__`
    from one handle to another (to keep pure-python attributes).  Whatever storage-bound attribute such a copy may
    bring into the destination must be derived again / validated against the destination's own storage afterwards,
    otherwise a nested part or a dressed referent keeps viewing the source: reads/writes through `outer.mid.leaf` or
    `copy.ref` then go to another object's memory (PF22, PF23, seeded C18-a / C09-b).
    A freshly constructed handle has `_xobject` and `_dressed_<nested>`, but NOT `_dressed_<ref>` (reference fields
    are not re-dressed), so an 'only absent keys' copy can still import a dressed referent."""
    m = cx.m
    reval = _reinit_revalidates(m)
    r = m.func(f"{HC}._reinit_from_xobject")
    cx.check(set(BOUND) <= reval, r, construct=f"_reinit_from_xobject re-derives / validates {sorted(reval)}", detail="_xobject set, nested parts rebuilt from it, dressed referents dropped unless they view the referent (same buffer and offset)",
             bad_detail=f"_reinit_from_xobject does not re-derive / validate {sorted(set(BOUND) - reval)}: a dressed object copied from another handle keeps viewing that handle's memory", sub="validate")
    sites = 0
    for fn in m.all_functions("hybrid_class"):
        fl = None
        for node in own_nodes(fn):
            dst = src = None
            over = None  # set of bound key classes the copy may bring from the source
            site = None
            if isinstance(node, ast.Call) and call_name(node) == "update" and isinstance(node.func, ast.Attribute) and norm(node.func.value).endswith(".__dict__") and node.args and norm(node.args[0]).endswith(".__dict__"):
                dst, src = norm(node.func.value)[:-9], norm(node.args[0])[:-9]
                over = set(BOUND)
                site = node
            elif isinstance(node, ast.For) and ".__dict__" in norm(node.iter):
                it = norm(node.iter)
                src = it.split(".__dict__")[0]
                kname = norm(node.target.elts[0]) if isinstance(node.target, ast.Tuple) else norm(node.target)
                stores = [x for x in ast.walk(node) if isinstance(x, ast.Assign) and isinstance(x.targets[0], ast.Subscript) and norm(x.targets[0].value).endswith(".__dict__") and norm(x.targets[0].slice) == kname]
                stores += [c_ for c_ in ast.walk(node) if isinstance(c_, ast.Call) and call_name(c_) == "setattr" and len(c_.args) == 3 and norm(c_.args[1]) == kname]
                if not stores:
                    continue
                st0 = stores[0]
                dst = norm(st0.targets[0].value)[:-9] if isinstance(st0, ast.Assign) else norm(st0.args[0])
                over = set(BOUND)
                fl = fl or Flow(fn)

                def apply_guard(t, pol):
                    nonlocal over
                    if isinstance(t, ast.UnaryOp) and isinstance(t.op, ast.Not):
                        return apply_guard(t.operand, not pol)
                    if isinstance(t, ast.BoolOp) and isinstance(t.op, ast.And) and pol:
                        for v in t.values:
                            apply_guard(v, True)
                        return
                    txt = norm(t)
                    if kname not in txt:
                        return
                    if isinstance(t, ast.Compare) and len(t.ops) == 1 and norm(t.left) == kname:
                        rhs = norm(t.comparators[0])
                        absent = (isinstance(t.ops[0], ast.NotIn) and pol) or (isinstance(t.ops[0], ast.In) and not pol)
                        differs = (isinstance(t.ops[0], ast.NotEq) and pol) or (isinstance(t.ops[0], ast.Eq) and not pol)
                        if absent and rhs in (f"{dst}.__dict__", f"{dst}.__dict__.keys()"):
                            # keys the destination lacks: a fresh handle has _xobject and its nested parts, not dressed referents
                            over -= {"_xobject", "_dressed_<nested>"}
                            return
                        if differs and isinstance(t.comparators[0], ast.Constant) and isinstance(t.comparators[0].value, str):
                            if t.comparators[0].value == "_xobject":
                                over.discard("_xobject")
                            return  # excluding some other single key does not protect a bound key
                        if absent and isinstance(t.comparators[0], (ast.Tuple, ast.List, ast.Set)):
                            for e in t.comparators[0].elts:
                                if isinstance(e, ast.Constant) and e.value == "_xobject":
                                    over.discard("_xobject")
                            return
                    if isinstance(t, ast.Call) and norm(t.func) == f"{kname}.startswith" and t.args and isinstance(t.args[0], ast.Constant):
                        if not pol and t.args[0].value == "_dressed_":
                            over -= {"_dressed_<nested>", "_dressed_<ref>"}
                            return
                        if not pol and t.args[0].value == "_":
                            over = set()
                            return
                    raise AnalysisError(f"[H6] guard `{txt}` on an attribute copy loop not understood")

                for c in fl.conds_at(st0 if isinstance(st0, ast.Assign) else fl.stmt(st0)):
                    if c.kind == "if":
                        apply_guard(c.test, c.pol)
                site = node
            if site is None:
                continue
            sites += 1
            fl = fl or Flow(fn)
            st = fl.stmt(site) if not isinstance(site, ast.stmt) else site
            if isinstance(site, ast.For) and "_xobject" not in over and "_dressed_<nested>" not in over:
                # relies on the destination being freshly constructed from its own _xobject
                ctor = [a_ for a_ in own_nodes(fn) if isinstance(a_, ast.Assign) and norm(a_.targets[0]) == dst and isinstance(a_.value, ast.Call) and any(k.arg == "_xobject" for k in a_.value.keywords) and fl.ordered_before(a_, st)]
                if not ctor:
                    over |= {"_xobject", "_dressed_<nested>"}
            base = {id(c.test) for c in fl.conds_at(st) if c.kind == "if"}
            redo = set()
            how = []
            for a_ in own_nodes(fn):
                if isinstance(a_, ast.Assign) and norm(a_.targets[0]) == f"{dst}._xobject" and fl.ordered_before(st, a_) and {id(c.test) for c in fl.conds_at(a_) if c.kind == "if"} <= base:
                    redo.add("_xobject")
                    how.append(f"{dst}._xobject = ...")
                if isinstance(a_, ast.Call) and norm(a_.func) == f"{dst}._reinit_from_xobject" and fl.ordered_before(st, fl.stmt(a_)) and {id(c.test) for c in fl.conds_at(fl.stmt(a_)) if c.kind == "if"} <= base:
                    redo |= reval
                    how.append(f"{dst}._reinit_from_xobject(...)")
                if isinstance(a_, ast.Call) and call_name(a_) == "setattr" and len(a_.args) == 3 and norm(a_.args[2]) == dst and fl.ordered_before(st, fl.stmt(a_)) and {id(c.test) for c in fl.conds_at(fl.stmt(a_)) if c.kind == "if"} <= base:
                    # assignment to a hybrid attribute goes through _FieldOfDressed.__set__, whose copy arm builds a new
                    # handle on the container's field and re-initialises it (checked as its own site)
                    redo |= reval
                    how.append(f"setattr(..., {dst}) -> _FieldOfDressed.__set__")
            left = sorted(over - redo)
            cx.check(not left, site, construct=f"{fn.name}: {src}.__dict__ -> {dst}.__dict__ may bring {sorted(over)}; afterwards: {how or 'nothing'}",
                     detail="every storage-bound attribute the copy can bring along is rebuilt from / validated against the destination's own storage",
                     bad_detail=f"{left} of `{dst}` may be taken over from `{src}` and are neither rebuilt from nor validated against `{dst}`'s own storage: the nested part / dressed referent keeps viewing `{src}`'s memory (reads and writes through it miss the destination)")
    cx.need(sites >= 2, f"only {sites} bulk attribute copies between hybrid handles found (expected __set__ and _reinit_from_xobject)")


def _dnf(e, pol=True):
    """disjunctive normal form of a boolean test: list of conjuncts, each a list of (atom expr, polarity)"""
    if isinstance(e, ast.UnaryOp) and isinstance(e.op, ast.Not):
        return _dnf(e.operand, not pol)
    if isinstance(e, ast.BoolOp):
        conj = isinstance(e.op, ast.And) == pol  # And under positive polarity / Or under negative polarity
        parts = [_dnf(v, pol) for v in e.values]
        if conj:
            out = [[]]
            for p_ in parts:
                out = [a + b for a in out for b in p_]
            return out
        return [c for p_ in parts for c in p_]
    return [[(e, pol)]]


@rule("H7", ["C18"], "assignment of a hybrid object to a by-value field skips the data copy only when the value IS the field (same buffer and same offset)")
def h7(cx):
    """`container.f = value` copies the struct data of `value` into the container's field unless `value` already views
    that very memory (the field is being dressed again).  'Same memory' means same buffer AND same offset: with the
    offset alone an object sitting at the same offset of ANOTHER buffer is taken for the field and the assignment is
    silently dropped (seeded C18-b)."""
    m = cx.m
    f = m.func(f"{FD}.__set__")
    fl = Flow(f)
    wr = [c for c in own_nodes(f) if isinstance(c, ast.Call) and call_name(c) == "setattr" and len(c.args) == 3 and norm(c.args[0]) == "container._xobject" and norm(c.args[2]).endswith("._xobject")]
    cx.need(len(wr) == 1, "_FieldOfDressed.__set__: the copy of the value's struct data into the container's field not found")
    w = wr[0]
    d = Defs(f)
    conds = [c for c in fl.conds_at(fl.stmt(w)) if c.kind == "if"]
    # the write happens iff all enclosing conditions hold; it is skipped iff one of them fails.  Only the innermost
    # condition is the "already the same memory" test (the outer ones select the dressed-value arm)
    cx.need(len(conds) >= 1, "_FieldOfDressed.__set__: the data copy is unconditional")
    inner = conds[-1]
    if not any("_offset" in norm(n) for n in ast.walk(inner.test)) and not any("_buffer" in norm(n) for n in ast.walk(inner.test)):
        cx.ok(w, construct="the data copy is not skipped on any memory test", detail="always copies (re-dressing copies the bytes onto themselves)")
        return
    skip = _dnf(inner.test, not inner.pol)

    walrus = {}
    for n_ in ast.walk(f):
        if isinstance(n_, ast.NamedExpr) and isinstance(n_.target, ast.Name):
            walrus.setdefault(n_.target.id, []).append(n_.value)

    def resolve(e):
        k = 0
        while isinstance(e, ast.Name) and k < 4:
            if d.single(e.id) is not None:
                e, k = d.single(e.id), k + 1
            elif len(walrus.get(e.id, ())) == 1:
                e, k = walrus[e.id][0], k + 1
            else:
                break
        return e

    def side(e):
        t = norm(resolve(e)) if not isinstance(e, ast.Attribute) else norm(ast.Attribute(value=resolve(e.value), attr=e.attr, ctx=ast.Load()))
        if "container" in t:
            return "container"
        if "value" in t:
            return "value"
        return None

    bad = []
    for conj in skip:
        has_buf = has_off = False
        for a, pol in conj:
            if isinstance(a, ast.Compare) and len(a.ops) == 1:
                l, r = a.left, a.comparators[0]
                ln, rn = norm(l), norm(r)
                same = (isinstance(a.ops[0], (ast.Is, ast.Eq)) and pol) or (isinstance(a.ops[0], (ast.IsNot, ast.NotEq)) and not pol)
                if same and ln.endswith("_buffer") and rn.endswith("_buffer") and {side(l), side(r)} == {"container", "value"}:
                    has_buf = True
                if same and isinstance(a.ops[0], (ast.Eq, ast.NotEq)) and ln.endswith("_offset") and rn.endswith("_offset") and {side(l), side(r)} == {"container", "value"}:
                    has_off = True
        if not (has_buf and has_off):
            bad.append((conj, has_buf, has_off))
    if bad:
        conj, hb, ho = bad[0]
        txt = " and ".join((("" if pol else "not ") + short(a, 60)) for a, pol in conj)
        cx.bad(w, construct=f"copy skipped when: {txt}", detail=f"the skip condition does not establish {'the same buffer' if not hb else ''}{' and ' if not hb and not ho else ''}{'the same offset' if not ho else ''}: a value in another buffer at the same offset (or another object of the same buffer) is taken for the field itself and the assignment is silently dropped")
    else:
        cx.ok(w, construct=f"copy skipped only when same buffer and same offset ({len(skip)} disjunct(s))", detail="re-dressing the field with itself is the only case without a copy")


def _ns(e, env):
    """name-space of a string-valued expression: 'xo' | 'py' | 'any' | None"""
    if isinstance(e, ast.Name):
        return env.get(e.id)
    if isinstance(e, ast.Attribute):
        if e.attr == "name":
            return env.get(norm(e.value) + ".name", env.get(norm(e)))
    if isinstance(e, ast.Call) and isinstance(e.func, ast.Attribute) and e.func.attr == "get" and len(e.args) == 2:
        tbl = norm(e.func.value)
        k = _ns(e.args[0], env)
        same_default = norm(e.args[0]) == norm(e.args[1])
        if tbl.endswith("._rename") and same_default:
            return "py" if k in ("xo",) else None
        if tbl.endswith("._inverse_rename") and same_default:
            return "xo" if k in ("py", "any") else None
    if isinstance(e, ast.BinOp) and isinstance(e.op, ast.Add) and norm(e.left) == "'_dressed_'":
        return "dressed:" + str(_ns(e.right, env))
    return None


@rule("H4", ["C18", "C19"], "name-space typing of field names: struct names (xo) vs python names (py) are never mixed")
def h4(cx):
    m = cx.m
    n = 0
    # ---- to_dict
    f = m.func(f"{HC}.to_dict")
    env = {}
    for l in [x for x in own_nodes(f) if isinstance(x, ast.For)]:
        it = norm(l.iter)
        tv = norm(l.target)
        if it.endswith("._XoStruct._fields"):
            env[tv + ".name"] = "xo"
        elif it in ("fields_to_store", "obj._fields", "self._fields"):
            env[tv] = "py"
    d = Defs(f)
    fts = d.single("fields_to_store")
    cx.need(fts is not None and "obj._fields" in norm(fts), "to_dict: fields_to_store is not derived from obj._fields")
    stores = [s for s in own_nodes(f) if isinstance(s, ast.Assign) and isinstance(s.targets[0], ast.Subscript) and norm(s.targets[0].value) == "defaults"]
    cx.need(len(stores) == 1, "to_dict: defaults[...] store not found")
    kspace = _ns(stores[0].targets[0].slice, env)
    cx.need(kspace in ("xo", "py"), f"to_dict: cannot type the key of `{short(stores[0])}`")
    for c in [x for x in own_nodes(f) if isinstance(x, ast.Call) and call_name(x) == "get" and norm(x.func.value) == "defaults"]:
        n += 1
        k = _ns(c.args[0], env)
        cx.recog(k is not None, c, f"to_dict: name space of `{short(c.args[0])}`")
        cx.check(k == kspace, c, construct=f"to_dict: defaults keyed by {kspace}-names, read with {short(c.args[0])} : {k}", detail="defaults are looked up in the key space they were stored in",
                 bad_detail=f"defaults is keyed by struct field names but read with a python-side name: for a renamed field the lookup yields None, so a value equal to its default is never omitted")
    for c in [x for x in own_nodes(f) if isinstance(x, ast.Call) and call_name(x) == "getattr" and norm(x.args[0]) == "obj" and len(x.args) == 2]:
        n += 1
        k = _ns(c.args[1], env)
        cx.recog(k is not None, c, f"to_dict: name space of `{short(c.args[1])}`")
        cx.check(k == "py", c, construct=f"to_dict: getattr(obj, {norm(c.args[1])}) : {k}", detail="hybrid attributes are addressed by python names", bad_detail="hybrid attribute read with a struct-side name")
    for s in [x for x in own_nodes(f) if isinstance(x, ast.Assign) and isinstance(x.targets[0], ast.Subscript) and norm(x.targets[0].value) == "out"]:
        n += 1
        k = _ns(s.targets[0].slice, env)
        cx.recog(k is not None, s, f"to_dict: name space of `{short(s.targets[0].slice)}`")
        cx.check(k == "py", s, construct=f"to_dict: out[{norm(s.targets[0].slice)}] : {k}", detail="dictionary keys are python names (what the constructor accepts back)", bad_detail="dictionary key is not the python-side field name")
    # ---- _reinit_from_xobject
    f = m.func(f"{HC}._reinit_from_xobject")
    env = {"ff.name": "xo"}
    d = Defs(f)
    for name, defs in d.assigns.items():
        if len(defs) == 1 and defs[0][0] is not None:
            t = _ns(defs[0][0], env)
            if t:
                env[name] = t
    for c in [x for x in own_nodes(f) if isinstance(x, ast.Call) and call_name(x) in ("getattr", "hasattr", "setattr") and len(x.args) >= 2]:
        tgt, key = norm(c.args[0]), c.args[1]
        k = _ns(key, env)
        n += 1
        if tgt in ("_xobject", "self"):
            cx.recog(k is not None, c, f"_reinit_from_xobject: name space of `{short(key)}`")
        if tgt == "_xobject":
            cx.check(k == "xo", c, construct=f"_reinit: {call_name(c)}(_xobject, {norm(key)}) : {k}", detail="struct fields are addressed by struct names", bad_detail="struct field addressed with a python-side name")
        elif tgt == "self":
            if call_name(c) == "setattr":
                cx.check(k == "py", c, construct=f"_reinit: setattr(self, {norm(key)}) : {k}", detail="the dressed child is assigned through the python-named descriptor", bad_detail="the nested hybrid child is assigned under the struct-side name: for a renamed field the python attribute keeps the stale child")
            else:
                cx.check(k == "dressed:xo", c, construct=f"_reinit: {call_name(c)}(self, {norm(key)}) : {k}", detail="dressed children are cached under '_dressed_'+struct name", bad_detail="dressed cache key is not '_dressed_'+struct name")
    # ---- metaclass: descriptor installed under the python name, constructed with the struct name
    mh = m.func("hybrid_class::MetaHybridClass.__new__")
    sets = [c for c in own_nodes(mh) if isinstance(c, ast.Call) and call_name(c) == "setattr" and norm(c.args[0]) == "new_class" and isinstance(c.args[2], ast.Call) and call_name(c.args[2]) == "_FieldOfDressed"]
    cx.need(len(sets) == 1, "MetaHybridClass.__new__: descriptor installation not found")
    s = sets[0]
    d = Defs(mh)
    fl = Flow(mh)
    env = {"ff.name": "xo"}
    for l in [x for x in own_nodes(mh) if isinstance(x, ast.For)]:
        if norm(l.iter).endswith("_XoStruct._fields") and isinstance(l.target, ast.Name):
            env[l.target.id + ".name"] = "xo"
    # rename : xo -> py (declared `_rename`), so rename[x] / rename.get(x, x) of an xo name is a py name
    changed = True
    while changed:
        changed = False
        for name, defs in d.assigns.items():
            if name in env:
                continue
            ts = set()
            for v, _ in defs:
                if v is None:
                    ts.add(None)
                elif isinstance(v, ast.Subscript) and norm(v.value) == "rename":
                    ts.add("py" if _ns(v.slice, env) == "xo" else None)
                elif isinstance(v, ast.Call) and norm(v.func) == "rename.get" and len(v.args) == 2 and norm(v.args[0]) == norm(v.args[1]):
                    ts.add("py" if _ns(v.args[0], env) == "xo" else None)
                else:
                    t = _ns(v, env)
                    # `pyname = fname` under `fname not in rename`: an xo name that is its own py name
                    ts.add(t)
            if ts and None not in ts and ts <= {"py", "xo"}:
                # a local that is rename[x] on one arm and x itself on the other is the python name of x
                env[name] = "py" if "py" in ts else "xo"
                changed = True
    pyn, xon = s.args[1], s.args[2].args[0]
    kp, kx = _ns(pyn, env), _ns(xon, env)
    cx.recog(kp is not None and kx is not None, s, f"MetaHybridClass.__new__: name spaces of `{short(pyn)}` / `{short(xon)}`")
    n += 1
    cx.check(kp == "py" and kx == "xo", s, construct=f"setattr(new_class, {norm(pyn)} : {kp}, _FieldOfDressed({norm(xon)} : {kx}, ...))", detail="python attribute name = renamed name, descriptor bound to the struct field name",
             bad_detail="descriptor is not installed under the renamed python name for the struct field name")
    _h4_xoinit_todict(cx, m, n)


@rule("H4e", ["C18", "C19"], "rename maps, evaluated: the metaclass binds one descriptor per python name to its struct field, keeps the tables inverse of each other, and refuses maps that alias two fields")
def h4e(cx):
    m = cx.m
    mh = m.func(f"{MHC}.__new__")
    n = 0
    # ---- evaluated: the metaclass is run on a two-field class with rename maps that are fine / alias two fields /
    # take the name of an unrenamed field; the tables and descriptors of the accepted class are compared
    from .layout import Lab
    from ..peval import Obj as _Obj
    for ren, expect in (({"a": "x"}, "accept"), ({}, "accept"), (None, "accept"), ({"a": "x", "b": "x"}, "refuse"), ({"a": "b"}, "refuse")):
        lab = Lab(m)
        I = lab.I

        def thunk():
            MH = I.global_lookup("hybrid_class", "MetaHybridClass")
            HCv = I.global_lookup("hybrid_class", "HybridClass")
            F = I.global_lookup("scalar", "Float64")
            data = {"_xofields": {"a": F, "b": F}}
            if ren is not None:
                data["_rename"] = dict(ren)
            return I.call(I.getattr(MH, "__new__"), [MH, "T", (HCv,), data], {})

        res = I.explore(thunk, max_paths=32)
        label = f"class T(HybridClass): _xofields={{a,b}}, _rename={ren!r}"
        n += 1
        if expect == "refuse":
            acc = [r for r in res if r["exc"] is None]
            cx.check(not acc, None, construct=label, detail="refused: two attributes cannot name one field / one name two fields", bad_detail="a rename map that aliases two fields (or takes the name of another field) is accepted: one attribute no longer reflects its field", anchor=f"{MHC}.__new__", sub="injective")
            continue
        bad = ""
        for r in res:
            if r["exc"] is not None:
                bad = f"refused with {r['exc'].etype}"
                break
            c = r["result"]
            rn = dict(ren or {})
            want_desc = {rn.get(k, k): k for k in ("a", "b")}
            got_desc = {k: (I.getattr(v, "name") if isinstance(v, _Obj) and v.cls is not None and v.cls.name == "_FieldOfDressed" else None) for k, v in c.attrs.items() if isinstance(v, _Obj) and v.cls is not None and v.cls.name == "_FieldOfDressed"}
            if got_desc != want_desc:
                bad = f"descriptors {got_desc}, expected {want_desc}"
            elif dict(c.attrs.get("_rename", {})) != rn or dict(c.attrs.get("_inverse_rename", {})) != {v: k for k, v in rn.items()}:
                bad = f"_rename={c.attrs.get('_rename')!r} _inverse_rename={c.attrs.get('_inverse_rename')!r}"
            elif list(c.attrs.get("_xo_fnames", [])) != ["a", "b"] or sorted(c.attrs.get("_py_fnames", [])) != sorted(want_desc):
                bad = f"_xo_fnames={c.attrs.get('_xo_fnames')!r} _py_fnames={c.attrs.get('_py_fnames')!r}"
            if bad:
                break
        cx.check(not bad, None, construct=label, detail="descriptor per python name bound to its struct field; rename tables inverse of each other", bad_detail=f"class construction under renaming: {bad}", anchor=f"{MHC}.__new__", sub="tables")
    cx.need(n >= 5, f"only {n} rename-map cases")


def _h4_xoinit_todict(cx, m, n):
    # ---- xoinitialize: struct kwargs keyed by xo names
    f = m.func(f"{HC}.xoinitialize")
    env = {"kk": "any"}
    for s in [x for x in own_nodes(f) if isinstance(x, ast.Assign) and isinstance(x.targets[0], ast.Subscript) and norm(x.targets[0].value) == "xo_kwargs"]:
        n += 1
        k = _ns(s.targets[0].slice, env)
        cx.recog(k is not None, s, f"xoinitialize: name space of `{short(s.targets[0].slice)}`")
        cx.check(k == "xo", s, construct=f"xoinitialize: xo_kwargs[{norm(s.targets[0].slice)}] : {k}", detail="constructor keywords are translated to struct names", bad_detail="struct constructor receives a python-side (renamed) keyword: the value of a renamed field is dropped and its default used")
    cx.need(n >= 10, f"only {n} name-space typed uses found")


@rule("H5", ["C18"], "attributes of a hybrid object read through the buffer (no cached value copy)")
def h5(cx):
    m = cx.m
    f = m.func(f"{FD}.__get__")
    rets = [r for r in own_nodes(f) if isinstance(r, ast.Return)]
    fl = Flow(f)
    kinds = {}
    for r in rets:
        txt = " & ".join(c.text() for c in fl.conds_at(r) if c.kind == "if")
        kinds[norm(r.value)] = txt
    plain = [k for k in kinds if k == "getattr(container._xobject, self.name)"]
    arr = [k for k in kinds if k.startswith("getattr(container._xobject, self.name).to_nplike()")]
    cx.check(len(plain) == 1, rets[0], construct="__get__: plain field -> getattr(container._xobject, self.name)", detail="value is read from the buffer on every access", bad_detail="plain fields are not read through the struct view")
    cx.check(len(arr) >= 1 and all("self.isnplikearray" in kinds[k] for k in arr), rets[0], construct="__get__: scalar-array field -> fresh to_nplike() view", detail="array attributes alias the buffer bytes", bad_detail="array attributes are not a fresh view of the buffer", sub="array")
    st = m.func(f"{FD}.__set__")
    src = norm(st)
    cx.check("self.__get__(container=container)[:] = value" in src, st, construct="__set__: array field -> view[:] = value", detail="array assignment writes through the view", bad_detail="array assignment does not write through the buffer view", sub="array-set")
    for attr in ("_buffer", "_offset"):
        p = m.func(f"{HC}.{attr}")
        r = [x for x in own_nodes(p) if isinstance(x, ast.Return)]
        cx.check(len(r) == 1 and norm(r[0].value) == f"self._xobject.{attr}", r[0] if r else p, construct=f"HybridClass.{attr} -> self._xobject.{attr}", detail="location is that of the struct", bad_detail=f"HybridClass.{attr} does not delegate to the struct", sub="delegate")


# ------------------------------------------------------------------------------------------ J
@rule("J1", ["C19"], "to_dict elides exactly the values equal to the declared default; defaults have a single source")
def j1(cx):
    m = cx.m
    f = m.func(f"{HC}.to_dict")
    fl = Flow(f)
    # ---- elision rule, phrased on PATHS (independent of how the dispatch is written):
    # the loop over the fields is found; every path through its body that stores nothing under the field's key
    # must carry the fact "value equals the declared default" (np.any(D != v) false, np.all(D == v) true, D == v, ...).
    loops = [l for l in own_nodes(f) if isinstance(l, ast.For) and any(isinstance(x, ast.Assign) and isinstance(x.targets[0], ast.Subscript) and norm(x.targets[0].value) == "out" for x in ast.walk(l))]
    cx.need(len(loops) == 1, "to_dict: the loop storing the fields into `out` not found")
    lp = loops[0]
    key = norm(lp.target)
    # the value variable: assigned from getattr(obj, key)
    vdefs = [x for x in lp.body if isinstance(x, ast.Assign) and isinstance(x.value, ast.Call) and norm(x.value.func) == "getattr" and len(x.value.args) >= 2 and norm(x.value.args[1]) == key]
    cx.need(len(vdefs) == 1 and isinstance(vdefs[0].targets[0], ast.Name), "to_dict: `vv = getattr(obj, ff)` not found")
    vv = vdefs[0].targets[0].id

    def is_store(st):
        return isinstance(st, ast.Assign) and isinstance(st.targets[0], ast.Subscript) and norm(st.targets[0].value) == "out" and norm(st.targets[0].slice) == key

    def paths(stmts, conds, stored):
        """-> list of (conds, stored, terminated)"""
        cur = [(list(conds), stored, False)]
        for st in stmts:
            nxt = []
            for cds, sd, term in cur:
                if term:
                    nxt.append((cds, sd, term))
                    continue
                if is_store(st):
                    nxt.append((cds, True, False))
                elif isinstance(st, ast.If):
                    for arm, pol in ((st.body, True), (st.orelse, False)):
                        for r in paths(arm, cds + [(st.test, pol)], sd):
                            nxt.append(r)
                elif isinstance(st, (ast.Continue, ast.Break, ast.Return)):
                    nxt.append((cds, sd, True))
                elif isinstance(st, (ast.For, ast.While, ast.Try, ast.With)):
                    raise AnalysisError(f"[J1] to_dict: unsupported `{type(st).__name__}` inside the field loop")
                else:
                    nxt.append((cds, sd, False))
            cur = nxt
        return cur

    def default_equality(t, pol):
        """does (t, pol) assert  declared default == value ?"""
        if isinstance(t, ast.UnaryOp) and isinstance(t.op, ast.Not):
            return default_equality(t.operand, not pol)
        quant = None
        inner = t
        if isinstance(t, ast.Call) and norm(t.func) in ("np.any", "any", "np.all", "all") and len(t.args) == 1:
            quant = "any" if norm(t.func).endswith("any") else "all"
            inner = t.args[0]
        if not (isinstance(inner, ast.Compare) and len(inner.ops) == 1):
            return None
        sides = [norm(inner.left), norm(inner.comparators[0])]
        if not (vv in sides and any(x.startswith("defaults.get(") or x.startswith("defaults[") for x in sides)):
            return None
        eq = isinstance(inner.ops[0], ast.Eq)
        ne = isinstance(inner.ops[0], ast.NotEq)
        if not (eq or ne):
            return None
        # truth table: which (quantifier, operator, polarity) mean "all components equal"
        if quant in (None, "all") and eq and pol:
            return True  # D == v / all(D == v) holds
        if quant in (None, "any") and ne and not pol:
            return True  # not any(D != v)
        return False  # a default-related test, but not the equality fact (e.g. any(D == v) false = all differ)

    allp = paths(lp.body, [], False)
    cx.need(len(allp) >= 3, "to_dict: fewer than three paths through the field loop")
    n_el = 0
    for cds, sd, _ in allp:
        if sd:
            continue
        n_el += 1
        facts = [default_equality(t, pol) for t, pol in cds]
        desc = " and ".join((("" if pol else "not ") + short(t, 60)) for t, pol in cds) or "unconditionally"
        anchor_node = cds[-1][0] if cds else lp
        if any(x is True for x in facts):
            cx.ok(anchor_node, construct=f"to_dict: field left out when {desc}", detail="elided only when the value equals the declared default, which the constructor fills in for an absent key")
        elif any(x is False for x in facts):
            cx.bad(anchor_node, construct=f"to_dict: field left out when {desc}", detail="polarity inverted: the field is dropped although it DIFFERS from the declared default (values equal to the default are the ones stored): from_dict rebuilds the default instead of the value")
        else:
            cx.bad(anchor_node, construct=f"to_dict: field left out when {desc}", detail="a field is left out of the dictionary on a path that does not establish `value == declared default`: from_dict fills the outer default in and the rebuilt object differs")
    cx.need(n_el >= 1, "to_dict: no eliding path found (the default elision the property describes is gone)")
    stores = [s_ for s_ in ast.walk(lp) if is_store(s_)]
    vals = {norm(x.value) for x in stores}
    cx.check(any(v.endswith(".to_dict()") for v in vals | {norm(d.value) for d in ast.walk(lp) if isinstance(d, ast.Assign)}) and any(v.endswith("._to_dict()") for v in vals | {norm(d.value) for d in ast.walk(lp) if isinstance(d, ast.Assign)}), lp,
             construct="nested hybrid -> to_dict(), nested struct -> _to_dict()", detail="compound values are serialised recursively", bad_detail="nested values are not serialised recursively", sub="nested")


@rule("J2", ["C19"], "the defaults the elision compares against have a single source shared with the constructor; from_dict forwards the dictionary unchanged")
def j2(cx):
    m = cx.m
    f = m.func(f"{HC}.to_dict")
    # J2 single source of defaults
    dl = [s for s in own_nodes(f) if isinstance(s, ast.Assign) and isinstance(s.targets[0], ast.Subscript) and norm(s.targets[0].value) == "defaults"]
    if len(dl) == 1 and norm(dl[0].value) == "field.get_default()":
        cx.ok(dl[0], construct="defaults[...] = field.get_default()", detail="elision compares against Field.get_default()", sub="J2")
    else:
        cx.note(f, construct="to_dict: the table of declared defaults is built in another shape", detail="that the elision compares with the class's OWN declared defaults is decided by rule JD (round trip incl. a subclass re-declaring a default)")
    # evaluated: Field.get_default / Field.value_from_args on field declarations of every default kind
    from ..peval import Interp, Builtin as _B, Opaque as _Op
    m.func("struct::Field.value_from_args"), m.func("struct::Field.get_default")
    I = Interp(m)
    FieldC = I.global_lookup("struct", "Field")
    calls = []

    def ftype(*a, **k):
        calls.append(("ftype", a, k))
        return ("ftype-value", a, tuple(sorted(k.items())))

    fac_val = _Op("factory-value")
    FT = _B("ftype", ftype)
    cases = [("no default", {}, ("ftype-value", (), ())),
             ("default=3", {"default": 3}, ("ftype-value", (3,), ())),
             ("default=0", {"default": 0}, ("ftype-value", (0,), ())),
             ("default=(1, 2)", {"default": (1, 2)}, ("ftype-value", (1, 2), ())),
             ("default={'k': 5}", {"default": {"k": 5}}, ("ftype-value", (), (("k", 5),))),
             ("default_factory=f", {"default_factory": _B("factory", lambda: fac_val)}, fac_val)]
    for label, kw, want in cases:
        out = {}

        def thunk():
            fld = I.call(FieldC, [FT], dict(kw))
            fld.attrs["name"] = "fname"
            out["d"] = I.call(I.getattr(fld, "get_default"), [], {})
            out["absent"] = I.call(I.getattr(fld, "value_from_args"), [{"other": 1}], {})
            out["present"] = I.call(I.getattr(fld, "value_from_args"), [{"fname": "given", "other": 1}], {})

        res = I.explore(thunk, max_paths=8)
        cx.recog(len(res) == 1 and res[0]["exc"] is None, None, f"Field({label}): get_default/value_from_args evaluation did not end in one normal path")
        ok = out.get("d") == want or out.get("d") is want
        cx.check(ok, None, construct=f"Field(ftype, {label}).get_default()", detail="factory() | ftype() | ftype(default) (tuple/dict defaults spread)", bad_detail=f"get_default gives {out.get('d')!r}, expected {want!r}", anchor="struct::Field.get_default", sub="J2")
        ok = (out.get("absent") == want or out.get("absent") is want) and out.get("present") == "given"
        cx.check(ok, None, construct=f"Field(ftype, {label}).value_from_args: key absent -> get_default(), key present -> the given value", detail="the constructor fills an omitted key from the same get_default() the elision compares against", bad_detail=f"value_from_args: absent -> {out.get('absent')!r} (declared default {want!r}), present -> {out.get('present')!r}", anchor="struct::Field.value_from_args", sub="J2")
    # from_dict forwards the dictionary unchanged, name check disabled
    sf = m.func(f"{HC}._static_from_dict")
    calls = [c for c in own_nodes(sf) if isinstance(c, ast.Call) and norm(c.func) == "cls"]
    ok = len(calls) == 1 and any(k.arg is None and norm(k.value) == "dct" for k in calls[0].keywords) and {k.arg: norm(k.value) for k in calls[0].keywords if k.arg}.get("_kwargs_name_check") == "False"
    cx.check(ok, sf, construct="from_dict: cls(**dct, ..., _kwargs_name_check=False)", detail="every key of the dictionary reaches the constructor ('__class__' tolerated)", bad_detail="from_dict does not forward the dictionary unchanged", sub="from_dict")


# J3 (JSON producer/consumer forms) is decided by evaluation: rule J3 in rules/layout.py


# ------------------------------------------------------------------------------------------ P
@rule("P1", ["C20"], "pickle state: carries the buffer handle itself and the offset; __getstate__ never mutates live state; contexts restore what they drop")
def p1(cx):
    m = cx.m
    gs = m.func("struct::Struct.__getstate__")
    r = [x for x in own_nodes(gs) if isinstance(x, ast.Return)]
    ok = len(r) == 1 and norm(r[0].value) in ("(self._buffer, self._offset)",)
    cx.check(ok, r[0] if r else gs, construct="Struct.__getstate__ -> (self._buffer, self._offset)", detail="objects pickled together share one buffer object through pickle's memo; the buffer travels with its contents",
             bad_detail="struct state is not (buffer object, offset): sharing or contents are lost")
    ss = m.func("struct::Struct.__setstate__")
    first = [s for s in ss.body if isinstance(s, ast.Assign)]
    ok = bool(first) and norm(first[0].targets[0]) == "(self._buffer, self._offset)" and norm(first[0].value) == param_names(ss)[1]
    cx.check(ok, first[0] if first else ss, construct="Struct.__setstate__: self._buffer, self._offset = state", detail="same order as __getstate__", bad_detail="state is unpacked in another order than it was packed", sub="order")
    hg = m.func(f"{HC}.__getstate__")
    r = [x for x in own_nodes(hg) if isinstance(x, ast.Return)]
    cx.check(len(r) == 1 and norm(r[0].value) == "self._xobject.__getstate__()", r[0] if r else hg, construct="HybridClass.__getstate__ -> struct state", detail="hybrid objects pickle as (buffer, offset) of their struct", bad_detail="hybrid state is not the struct's state", sub="hybrid")
    # P2/P3 (evaluated): __getstate__ of each context class is run on an instance with a buffer registry, compiled
    # kernels and plain attributes; it must leave the live instance untouched (P2); __setstate__ on a blank instance must
    # bring every attribute back, with a fresh empty buffer registry and a usable kernels mapping (P3)
    from ..peval import Interp, Obj as _Obj, Opaque as _Op, PyExc as _PyExc
    n = 0
    for spec in ("context::XContext", "context_cpu::ContextCpu"):
        c = m.cls(spec)
        ms = dict(m.methods(c))
        I = Interp(m)
        C = I.global_lookup(*spec.split("::"))
        # the state methods may be inherited (the interpreter follows the MRO and super()); they must exist somewhere
        for nm_ in ("__getstate__", "__setstate__"):
            got_, owner_ = I.find_in_class(C, nm_)
            cx.need(owner_ is not None, f"{spec}: no {nm_} in the class or its bases")
            ms.setdefault(nm_, got_.node if hasattr(got_, "node") else None)
        registry = {_Op("weak-buffer-1")}
        # the kernels live in the container class the context's __init__ creates (KernelDict)
        KD = I.global_lookup("context", "KernelDict")
        kern = I.call(KD, [], {})
        kern.attrs["k"] = _Op("compiled-kernel")
        live = {"_buffers": registry, "_kernels": kern, "omp_num_threads": 0, "_cffi_verbose": False, "minimum_alignment": 8, "extra_attr": _Op("plain")}
        # attributes that hold objects of a compiled module (cffi functions / libraries): taken from the source -- every
        # `self.<attr> = <something>.lib.<...>` / `ffi...` assignment in a method of the class
        unpicklable = {}
        for mname, fn_ in ms.items():
            for st_ in own_nodes(fn_):
                if isinstance(st_, ast.Assign) and len(st_.targets) == 1 and isinstance(st_.targets[0], ast.Attribute) and norm(st_.targets[0].value) == "self":
                    vtxt = norm(st_.value)
                    if ".lib." in vtxt or vtxt.startswith("ffi") or "ffi_interface" in vtxt and "cast" not in vtxt:
                        unpicklable[st_.targets[0].attr] = _Op(f"cffi object ({vtxt[:40]})")
        live.update(unpicklable)
        inst = _Obj("instance", dict(live), cls=C)
        out = {}
        if spec.endswith("ContextCpu"):
            # an OpenMP context on which NOTHING was built yet (the handles of the compiled module do not exist), and a
            # serial one: pickling must work in every life stage of the context (seeded C20-g deleted the handles
            # unconditionally for OpenMP contexts)
            for omp_ in (0, 4, "auto"):
                early = {k_: v_ for k_, v_ in live.items() if k_ not in unpicklable}
                early["omp_num_threads"] = omp_
                kern2 = I.call(KD, [], {})
                early["_kernels"] = kern2
                inst0 = _Obj("instance", dict(early), cls=C)
                res0 = I.explore(lambda: I.call(I.getattr(inst0, "__getstate__"), [], {}), max_paths=8)
                cx.recog(len(res0) == 1, ms["__getstate__"], f"{c.name}.__getstate__ before any build: {len(res0)} evaluation paths")
                e0 = res0[0]["exc"]
                cx.recog(e0 is None or e0.etype not in ("NameError",), ms["__getstate__"], f"{c.name}.__getstate__ before any build: {e0.etype if e0 else ''}: {e0.msg if e0 else ''}")
                cx.check(e0 is None, None, construct=f"ContextCpu(omp_num_threads={omp_!r}) pickled before anything was built on it", detail="the state is produced in every life stage of the context",
                         bad_detail=f"__getstate__ raises {e0.etype}: {e0.msg}: every object living in such a context is unpicklable until a kernel has been built" if e0 else "", anchor=f"{spec}.__getstate__", sub="P3")

        def thunk():
            out["state"] = I.call(I.getattr(inst, "__getstate__"), [], {})
            out["after"] = dict(inst.attrs)
            out["reg_after"] = set(registry)
            out["kern_after"] = dict(kern.attrs)
            new = _Obj("instance", {}, cls=C)
            I.call(I.getattr(new, "__setstate__"), [out["state"]], {})
            out["new"] = new

        res = I.explore(thunk, max_paths=8)
        cx.recog(len(res) == 1 and res[0]["exc"] is None, ms["__getstate__"], f"{c.name}.__getstate__/__setstate__: evaluation did not end in one normal path ({res[0]['exc'] if res else ''})")
        n += 1
        same = set(out["after"]) == set(live) and all(out["after"][k] is live[k] for k in live) and out["reg_after"] == registry and out["kern_after"] == dict(kern.attrs)
        gone = sorted(set(live) - set(out["after"]))
        cx.check(same, None, construct=f"{c.name}.__getstate__ leaves the live context as it was", detail="the state dict is a copy of the instance dict",
                 bad_detail=f"pickling changes the live context: attributes removed {gone}" if gone else "pickling changes the live context (an attribute or the kernel/buffer registry is edited in place)", anchor=f"{spec}.__getstate__", sub="P2")
        st = out["state"]
        cx.recog(isinstance(st, dict), ms["__getstate__"], f"{c.name}.__getstate__: state is not a dict")
        if "_buffers" in st:
            cx.note(None, detail=f"{c.name}: the weak registry of live buffers travels with the state (re-created by __setstate__ anyway; not judged)", anchor=f"{spec}.__getstate__")
        if spec.endswith("ContextCpu"):
            sk = st.get("_kernels")
            empty = sk is None or (isinstance(sk, dict) and not sk) or (isinstance(sk, _Obj) and not [k_ for k_ in sk.attrs if not k_.startswith("__")])
            cx.check(isinstance(st, dict) and empty, None, construct="ContextCpu: compiled kernels are not part of the state", detail="cffi modules are not picklable", bad_detail="compiled kernels are pickled with the context", anchor=f"{spec}.__getstate__", sub="P3")
            leaked = sorted(k_ for k_, v_ in st.items() if any(v_ is u_ for u_ in unpicklable.values()))
            cx.check(not leaked, None, construct=f"ContextCpu: attributes holding objects of a compiled module {sorted(unpicklable)} are not part of the state", detail="cffi functions cannot be pickled", bad_detail=f"the state carries {leaked}: once a kernel has been built (OpenMP context) every object of this context is unpicklable", anchor=f"{spec}.__getstate__", sub="P3")
        na = out["new"].attrs
        missing = sorted(set(live) - set(na) - set(unpicklable))
        cx.check(not missing, None, construct=f"{c.name}: restored context has every attribute again ({sorted(na)})", detail="a restored context is complete", bad_detail=f"a restored context lacks {missing}: a dropped attribute is not re-created by __setstate__", anchor=f"{spec}.__setstate__", sub="P3")
        rb = na.get("_buffers")
        cx.check(isinstance(rb, set) and not rb and rb is not registry, None, construct=f"{c.name}: restored _buffers is a fresh empty weak set", detail="buffer registry re-created empty", bad_detail="_buffers is not re-created as an empty weak set", anchor=f"{spec}.__setstate__", sub="P3")
        plain = all(na.get(k) is live[k] or na.get(k) == live[k] for k in live if k not in ("_buffers", "_kernels") and k not in unpicklable)
        cx.check(plain, None, construct=f"{c.name}: plain attributes restored unchanged", detail="state round trip", bad_detail="a plain attribute is changed by the state round trip", anchor=f"{spec}.__setstate__", sub="P3")
        if "_kernels" in na and spec.endswith("ContextCpu"):
            rk = na["_kernels"]
            cx.check(isinstance(rk, _Obj) and rk.cls is KD, None, construct=f"{c.name}: restored _kernels is an (empty) container of the class the context uses (KernelDict)", detail="ctx.kernels.<name>(...) keeps working after unpickling",
                     bad_detail=f"_kernels is {('a plain dict' if isinstance(rk, dict) else repr(rk))} after unpickling: kernels added later cannot be called as ctx.kernels.<name>", anchor=f"{spec}.__setstate__", sub="P3")
    cx.need(n >= 2, f"expected 2 context classes with state methods, found {n}")
    # P4 buffers stay allocators: no state methods, all allocator state is plain data
    xb = m.cls("context::XBuffer")
    ms = m.methods(xb)
    cx.check("__getstate__" not in ms and "__setstate__" not in ms and "__reduce__" not in ms, xb, construct="XBuffer defines no pickle hooks", detail="default pickling carries chunks, capacity, alignment, storage and context", bad_detail="XBuffer customises pickling", sub="P4")
    init = ms["__init__"]
    attrs = sorted({norm(t)[5:] for st in own_nodes(init) if isinstance(st, ast.Assign) for t in st.targets if norm(t).startswith("self.")})
    need = {"buffer", "capacity", "chunks", "context", "default_alignment", "grow_step"}
    cx.check(need <= set(attrs), init, construct=f"XBuffer state: {attrs}", detail="allocator state is complete instance data", bad_detail=f"XBuffer.__init__ no longer sets {sorted(need - set(attrs))}", sub="P4")
    for spec in ("context_cpu::BufferNumpy", "context_cpu::BufferByteArray"):
        c = m.cls(spec)
        ms = m.methods(c)
        cx.check(not ({"__getstate__", "__setstate__", "__reduce__"} & set(ms)), c, construct=f"{c.name}: default pickling", detail="CPU buffers pickle by value", bad_detail="CPU buffer customises pickling", sub="P4")
