"""Allocator obligations (DESIGN 4.C04, 4.C12): A0-A9, G-1..G-5, F-0..F-5."""
import ast

from ..core import rule
from ..flow import Flow, atoms
from ..idioms import match_roundup
from ..linear import Defs, Lin, Poly, one_line_helpers
from ..srcmodel import AnalysisError, attr_chain, call_name, get_arg, norm, own_nodes, short, stmt_of

XB = "context::XBuffer"


def _lin_for(m, func, inline=True):
    d = Defs(func)
    helpers = one_line_helpers(m, ["context::_align", "typeutils::_to_slot_size"]) if inline else {}
    return Lin(d.resolver(), helpers), d


def _is_self_chunks(n):
    return attr_chain(n) == "self.chunks"


# ------------------------------------------------------------------------------------------ A0
@rule("A0", ["C04", "C03", "C05"], "round-up idioms: _align and _to_slot_size")
def a0(cx):
    m = cx.m
    for spec, xname, a in (("context::_align", None, None), ("typeutils::_to_slot_size", None, 8)):
        f = m.func(spec)
        params = [p.arg for p in f.args.args]
        rets = [n for n in own_nodes(f) if isinstance(n, ast.Return)]
        cx.need(len(rets) == 1 and rets[0].value is not None, f"{spec}: expected a single return expression")
        d = Defs(f)
        lin = Lin(d.resolver())
        x = Poly.atom(params[0])
        if a is None:
            cx.need(len(params) == 2, f"{spec}: expected (offset, alignment)")
            ap = Poly.atom(params[1])
        else:
            cx.need(len(params) == 1, f"{spec}: expected (size)")
            ap = Poly.const(a)
        e = rets[0].value
        # follow a single local definition of the returned name
        if isinstance(e, ast.Name) and d.single(e.id) is not None:
            e = d.single(e.id)
        r = match_roundup(lin, e, x, ap)
        if r is None:
            raise AnalysisError(f"[A0] {spec}: return expression `{short(e)}` matches no round-up idiom of the table")
        cx.check(r[0] == "ok", rets[0], detail=f"round-up to a multiple of {ap!r}: {r[1]}", nf=r[1])


# ------------------------------------------------------------------------------------------ allocate
def _scan_loop(cx, f):
    loops = [n for n in f.body if isinstance(n, ast.For)]
    cand = [l for l in loops if any(_is_self_chunks(x) for x in ast.walk(l.iter))]
    cx.need(len(cand) == 1, "allocate: expected exactly one top-level scan loop over self.chunks")
    return cand[0]


@rule("A1", ["C04"], "allocate: returned offset is round-up(chunk.start, alignment); alignment has exactly the two sources")
def a1(cx):
    m = cx.m
    f = m.func(f"{XB}.allocate")
    lin, d = _lin_for(m, f, inline=False)
    loop = _scan_loop(cx, f)
    cx.need(isinstance(loop.target, ast.Name), "allocate: scan loop target is not a plain name")
    ch = loop.target.id
    rets = [n for n in ast.walk(loop) if isinstance(n, ast.Return)]
    cx.need(rets, "allocate: no return inside the scan loop")
    # alignment definitions
    params = [a.arg for a in f.args.args]
    cx.need("align" in params, "allocate: parameter `align` not found")
    adefs = d.defs_of("alignment")
    fl = Flow(f)
    ok_align = False
    if len(adefs) == 2:
        seen = {}
        for val, st in adefs:
            conds = [c for c in fl.conds_at(st) if norm(c.test) == "align"]
            if len(conds) == 1 and val is not None:
                seen[conds[0].pol] = norm(val)
        ok_align = seen.get(True) == "self.default_alignment" and seen.get(False) == "1"
    elif len(adefs) == 1 and isinstance(adefs[0][0], ast.IfExp):
        ie = adefs[0][0]
        ok_align = norm(ie.test) == "align" and norm(ie.body) == "self.default_alignment" and norm(ie.orelse) == "1"
    cx.check(
        ok_align,
        adefs[0][1] if adefs else f,
        construct="alignment := self.default_alignment if align else 1",
        detail="the requested alignment is the buffer default under `align`, 1 otherwise",
        bad_detail=f"alignment has definitions {[norm(v) for v, _ in adefs]} not matching (default_alignment | 1) on `align`",
        sub="alignment",
    )
    for r in rets:
        cx.need(r.value is not None, "allocate: bare return in scan loop")
        e = r.value
        if isinstance(e, ast.Name) and d.single(e.id) is not None:
            e = d.single(e.id)
        x = Poly.atom(f"{ch}.start")
        a = Poly.atom("alignment")
        verdict = None
        if isinstance(e, ast.Call) and call_name(e) == "_align" and len(e.args) == 2:
            verdict = ("ok", "_align(chunk.start, alignment)") if (lin.poly(e.args[0]) == x and lin.poly(e.args[1]) == a) else (
                "wrong", f"_align called with ({short(e.args[0])}, {short(e.args[1])})")
        else:
            verdict = match_roundup(lin, e, x, a)
        if verdict is None:
            if lin.poly(e) == x:
                verdict = ("wrong", "offset is chunk.start without alignment")
            else:
                raise AnalysisError(f"[A1] allocate: returned offset `{short(e)}` is not a recognised round-up of {ch}.start")
        cx.check(verdict[0] == "ok", r, construct=f"return {short(e)}", detail=verdict[1], nf=verdict[1], sub="aligned")


def _alloc_facts(cx):
    m = cx.m
    f = m.func(f"{XB}.allocate")
    lin, d = _lin_for(m, f, inline=True)
    loop = _scan_loop(cx, f)
    ch = loop.target.id
    fl = Flow(f)
    rets = [n for n in ast.walk(loop) if isinstance(n, ast.Return)]
    cx.need(rets, "allocate: no return inside the scan loop")
    return m, f, lin, d, loop, ch, fl, rets


def _fit_fact(cx, lin, fl, ret, ch):
    """(k, cond) such that the guard is  chunk.end - X - size - k >= 0"""
    X = lin.poly(ret.value)
    T = Poly.atom(f"{ch}.end") - X - Poly.atom("size")
    best = None
    for c in fl.conds_at(ret):
        fk = lin.fact(c.test, c.pol)
        if fk is None:
            continue
        kind, P = fk
        if kind == ">=0":
            diff = T - P
            if diff.is_const():
                k = diff.const_value()
                if best is None or k > best[0]:
                    best = (k, c)
        elif kind == "==0":
            diff = T - P
            diff2 = T + P
            if diff.is_const() and diff.const_value() == 0 or diff2.is_const() and diff2.const_value() == 0:
                best = (0, c) if best is None else best
    return X, T, best


@rule("A2", ["C04"], "allocate: the fit guard implies offset+size <= chunk.end for a chunk of the free list")
def a2(cx):
    m, f, lin, d, loop, ch, fl, rets = _alloc_facts(cx)
    cx.check(_is_self_chunks(loop.iter) or any(_is_self_chunks(x) for x in ast.walk(loop.iter)), loop,
             construct=f"for {ch} in {short(loop.iter)}", detail="candidates are chunks of the free list", sub="source")
    for r in rets:
        X, T, best = _fit_fact(cx, lin, fl, r, ch)
        if best is None:
            cx.bad(r, construct=f"return {short(r.value)}", detail=f"no dominating comparison bounds {T!r} from below: the region may exceed the free chunk", sub="guard")
        else:
            k, c = best
            cx.check(k >= 0, r, construct=f"guard {c.text()}", nf=f"{T!r} >= {k}",
                     detail="guard implies the region ends inside the chunk",
                     bad_detail=f"guard only gives {T!r} >= {k}: a region may end {-k} byte(s) past the chunk", sub="guard")


@rule("A3", ["C04", "C12"], "allocate: the served bytes leave the free list (chunk.start := offset+size) before returning")
def a3(cx):
    m, f, lin, d, loop, ch, fl, rets = _alloc_facts(cx)
    for r in rets:
        X = lin.poly(r.value)
        want = X + Poly.atom("size")
        assigns = [
            s for s in ast.walk(loop)
            if isinstance(s, ast.Assign) and any(attr_chain(t) == f"{ch}.start" for t in s.targets)
        ]
        doms = [s for s in assigns if fl.dominates(s, r)]
        if not doms:
            cx.bad(r, construct=f"return {short(r.value)}", detail=f"no assignment to {ch}.start dominates the return: the region stays in the free list", sub="consume")
            continue
        s = doms[-1]
        diff = lin.poly(s.value) - want
        if not diff.is_const():
            cx.bad(s, detail=f"{ch}.start := {lin.poly(s.value)!r}, expected offset+size = {want!r}", sub="consume")
            continue
        k = diff.const_value()
        cx.check(k >= 0, s, nf=f"{ch}.start = offset + size + {k}", detail="served region removed from the free chunk",
                 bad_detail=f"chunk restarts {-k} byte(s) inside the served region", sub="consume")
        cx.check(k == 0, s, nf=f"leak = {k}", detail="no byte is lost beyond alignment padding",
                 bad_detail=f"{k} byte(s) after every allocation are neither live nor free", sub="exact")
        # other writes to the chunk between guard and return
        for o in ast.walk(loop):
            if isinstance(o, (ast.Assign, ast.AugAssign)):
                tg = o.targets if isinstance(o, ast.Assign) else [o.target]
                for t in tg:
                    c = attr_chain(t)
                    if c == f"{ch}.end":
                        cx.bad(o, detail="allocate must not move the end of a free chunk", sub="consume")
    # removal only of empty chunks
    removers = []
    for n in own_nodes(f):
        if isinstance(n, ast.Call) and isinstance(n.func, ast.Attribute) and _is_self_chunks(n.func.value):
            if n.func.attr in ("remove", "pop", "clear"):
                removers.append(n)
        if isinstance(n, ast.Delete):
            for t in n.targets:
                if isinstance(t, ast.Subscript) and _is_self_chunks(t.value):
                    removers.append(n)
    for rm in removers:
        conds = fl.conds_at(rm)
        ok = False
        for c in conds:
            fk = lin.fact(c.test, c.pol)
            if fk and fk[0] == "==0":
                P = fk[1]
                if P in (Poly.atom(f"{ch}.size"), Poly.atom(f"{ch}.end") - Poly.atom(f"{ch}.start"), Poly.atom(f"{ch}.start") - Poly.atom(f"{ch}.end")):
                    ok = True
            if fk and fk[0] == ">=0" and fk[1] in (-Poly.atom(f"{ch}.size"), Poly.atom(f"{ch}.start") - Poly.atom(f"{ch}.end")):
                ok = True
        arg_ok = True
        if isinstance(rm, ast.Call) and rm.func.attr == "remove":
            arg_ok = len(rm.args) == 1 and norm(rm.args[0]) == ch
        cx.check(ok and arg_ok, rm, detail="only an exhausted chunk leaves the free list",
                 bad_detail="a chunk is removed from the free list without a dominating `size == 0` test: its bytes leak", sub="remove-empty")


@rule("A4", ["C12"], "allocate: the fit guard is equivalent to offset+size <= chunk.end (exact fits are served)")
def a4(cx):
    m, f, lin, d, loop, ch, fl, rets = _alloc_facts(cx)
    for r in rets:
        X, T, best = _fit_fact(cx, lin, fl, r, ch)
        if best is None:
            cx.bad(r, construct=f"return {short(r.value)}", detail="no fit guard found")
            continue
        k, c = best
        # the guard must be the only data-dependent condition between loop head and return
        extra = [x for x in fl.conds_at(r) if x is not c and x.kind != "assert"
                 and any(isinstance(n, ast.Name) and n.id in (ch, "size") or (attr_chain(n) or "").startswith(ch + ".") for n in ast.walk(x.test))]
        cx.check(k == 0 and not extra, r, construct=f"guard {c.text()}", nf=f"{T!r} >= {k}",
                 detail="a request that fits exactly is served",
                 bad_detail=(f"guard demands {k} spare byte(s): an exact fit is skipped and the buffer grows although free space can hold the request"
                             if k != 0 else f"additional conditions restrict serving: {[x.text() for x in extra]}"))


@rule("A5", ["C12"], "allocate: first success in list order (plain scan of self.chunks, return from inside the loop)")
def a5(cx):
    m, f, lin, d, loop, ch, fl, rets = _alloc_facts(cx)
    cx.check(_is_self_chunks(loop.iter), loop, construct=f"for {ch} in {short(loop.iter)}",
             detail="the scan iterates the free list itself, in list (address) order",
             bad_detail="the scan does not iterate self.chunks in list order (reversed/sorted/filtered): not first-fit")
    for r in rets:
        inner = [l for l in fl.loops_at(r)]
        cx.check(inner == [loop], r, construct=f"return {short(r.value)}", detail="returns at the first chunk passing the guard",
                 bad_detail="the return is not directly inside the scan loop", sub="first")
    # no candidate bookkeeping (best-fit) : no assignment in the loop survives to a post-loop return
    post = [s for s in f.body if fl.info[s].order > fl.info[loop].order]
    for s in post:
        for r in [n for n in ast.walk(s) if isinstance(n, ast.Return)]:
            v = r.value
            isrec = isinstance(v, ast.Call) and isinstance(v.func, ast.Attribute) and v.func.attr == "allocate"
            cx.check(isrec, r, detail="after the scan the only result is the retry",
                     bad_detail="a post-scan return yields a candidate chosen during the scan (not first-fit)", sub="post")


@rule("A6", ["C12", "C04"], "allocate: a retry is always preceded by growth and repeats the same request")
def a6(cx):
    m, f, lin, d, loop, ch, fl, rets = _alloc_facts(cx)
    post = [s for s in f.body if fl.info[s].order > fl.info[loop].order]
    recs = []
    for s in post:
        for c in [n for n in ast.walk(s) if isinstance(n, ast.Call)]:
            if isinstance(c.func, ast.Attribute) and c.func.attr == "allocate" and norm(c.func.value) == "self":
                recs.append(c)
    cx.need(recs, "allocate: no retry call found after the scan")

    def must_grow(stmts):
        for st in stmts:
            if isinstance(st, ast.If):
                if st.orelse and must_grow(st.body) and must_grow(st.orelse):
                    return True
                continue
            if isinstance(st, (ast.For, ast.While, ast.Try, ast.With)):
                continue
            for c in ast.walk(st):
                if isinstance(c, ast.Call) and isinstance(c.func, ast.Attribute) and c.func.attr == "grow" and norm(c.func.value) == "self":
                    return True
        return False

    for rc in recs:
        st = stmt_of(rc)
        while st not in f.body:
            st = stmt_of(st.parent)
        before = [s for s in post if fl.info[s].order < fl.info[st].order]
        cx.check(must_grow(before), rc, detail="every path from the failed scan to the retry grows the buffer",
                 bad_detail="a path reaches the retry without growing the buffer: unbounded recursion", sub="grow-first")
        size_a = get_arg(rc, 0, "size")
        align_a = get_arg(rc, 1, "align")
        same = size_a is not None and norm(size_a) == "size" and (align_a is not None and norm(align_a) == "align")
        cx.check(same, rc, detail="retry repeats (size, align)", bad_detail=f"retry passes ({norm(size_a)}, {norm(align_a)}) instead of (size, align)", sub="same-request")
    # growth amounts
    grows = [c for s in post for c in ast.walk(s) if isinstance(c, ast.Call) and isinstance(c.func, ast.Attribute) and c.func.attr == "grow"]
    need = Poly.atom("size") + Poly.atom("alignment") - Poly.const(1)
    amounts = []  # (amount expression, conditions it is chosen under, node)
    for g in grows:
        cx.need(len(g.args) == 1, "grow call with unexpected arguments")
        a0 = g.args[0]
        defs = d.defs_of(a0.id) if isinstance(a0, ast.Name) else []
        if len(defs) > 1 and all(v is not None for v, _ in defs):
            # one growth call fed by a local chosen in several branches: each choice is an amount of its own
            for v, st in defs:
                amounts.append((v, fl.conds_at(st), st))
        else:
            amounts.append((a0, fl.conds_at(g), g))
    for aexpr, conds, g in amounts:
        p = lin.poly(aexpr) if not isinstance(aexpr, ast.Name) or len(d.defs_of(aexpr.id)) <= 1 else Lin().poly(aexpr)
        txt = repr(p)
        if p == Poly.atom("self.capacity") or p == Poly.atom("self.grow_step"):
            if p == Poly.atom("self.grow_step"):
                ok = any(norm(c.test) == "self.grow_step is not None" and c.pol or norm(c.test) == "self.grow_step is None" and not c.pol for c in conds)
                cx.check(ok, g, detail="grow_step used only when set", bad_detail="grow(self.grow_step) reachable with grow_step None", sub="amount")
            else:
                cx.ok(g, detail="doubles the capacity", sub="amount")
            # these arms must be under not(size+alignment-1 > capacity)
            big = False
            for c in conds:
                fk = lin.fact(c.test, c.pol)
                if fk and fk[0] == ">=0" and (fk[1] - (Poly.atom("self.capacity") - need)).is_const():
                    big = True
            cx.check(big, g, construct=f"grow({txt}) under request <= capacity", detail="smaller steps are used only when the padded request does not exceed the capacity",
                     bad_detail="a fixed growth step is used although the request may exceed it by more than the capacity", sub="amount-guard")
        else:
            diff = p - need
            cx.check(diff.is_const() and diff.const_value() >= 0, g, nf=f"grow({txt})", detail="growth covers the padded request",
                     bad_detail=f"growth {txt} may be smaller than size+alignment-1", sub="amount")


@rule("A7", ["C12"], "allocate: the buffer grows only after the whole free list was scanned")
def a7(cx):
    m, f, lin, d, loop, ch, fl, rets = _alloc_facts(cx)
    n = 0
    for c in own_nodes(f):
        if isinstance(c, ast.Call) and isinstance(c.func, ast.Attribute) and c.func.attr == "grow":
            n += 1
            inloop = loop in fl.loops_at(c)
            after = fl.info[fl.stmt(c)].order > fl.info[loop].order
            cx.check((not inloop) and after, c, detail="growth happens after the scan found nothing",
                     bad_detail="grow is called before/inside the scan: the buffer is enlarged although a later chunk may fit")
    cx.need(n >= 1, "allocate: no grow call found")
    # the loop has no break/else that would skip chunks
    for b in ast.walk(loop):
        if isinstance(b, ast.Break):
            cx.bad(b, detail="scan abandoned before all chunks were tried", sub="break")


@rule("A8", ["C12", "C04"], "capacity never shrinks: the only capacity update is capacity + argument, arguments are sizes/steps")
def a8(cx):
    m = cx.m
    cls = m.cls(XB)
    n = 0
    for fn in m.methods(cls).values():
        d = Defs(fn)
        lin = Lin(d.resolver())
        for s in own_nodes(fn):
            if isinstance(s, (ast.Assign, ast.AugAssign)):
                tg = s.targets if isinstance(s, ast.Assign) else [s.target]
                for t in tg:
                    if attr_chain(t) == "self.capacity":
                        n += 1
                        if fn.name == "__init__":
                            cx.ok(s, detail="initial capacity", trivial=True)
                        elif fn.name == "grow":
                            if isinstance(s, ast.AugAssign):
                                val = Poly.atom("self.capacity") + lin.poly(s.value) if isinstance(s.op, ast.Add) else None
                            else:
                                val = lin.poly(s.value)
                            par = fn.args.args[1].arg if len(fn.args.args) > 1 else "capacity"
                            want = Poly.atom("self.capacity") + Poly.atom(par)
                            cx.check(val == want, s, nf=f"self.capacity := {val!r}", detail="capacity only increases by the requested amount",
                                     bad_detail=f"capacity becomes {val!r}, expected {want!r}")
                        else:
                            cx.bad(s, detail=f"capacity is modified outside grow ({fn.name})")
    cx.need(n >= 2, "capacity assignments not found")
    # every grow() argument in the package is one of the sanctioned non-negative quantities
    for modname in ("context", "context_cpu", "context_cupy", "context_pyopencl", "typeutils", "struct", "array", "string", "ref"):
        for c in [x for x in ast.walk(m.mod(modname).tree) if isinstance(x, ast.Call)]:
            if isinstance(c.func, ast.Attribute) and c.func.attr == "grow" and len(c.args) == 1:
                fn = m.enclosing_func(c)
                txt = norm(c.args[0])
                lin2 = Lin(Defs(fn).resolver()) if fn is not None else Lin()
                p = lin2.poly(c.args[0])
                neg = any(v < 0 for k, v in p.t.items() if k != ()) and not (p - (Poly.atom("size") + Poly.atom("alignment") - Poly.const(1))).is_const()
                cx.check(not neg, c, construct=f"grow({txt})", nf=repr(p), detail="growth argument is a capacity, a padded size or the user step",
                         bad_detail="growth argument has a negative term: capacity could shrink", sub="grow-arg")


# ------------------------------------------------------------------------------------------ grow
@rule("GR", ["C04", "C08", "C12"], "grow: new storage size, full copy at offset 0, copy before swap, new free range, capacity update last")
def gr(cx):
    m = cx.m
    f = m.func(f"{XB}.grow")
    lin, d = _lin_for(m, f)
    fl = Flow(f)
    par = f.args.args[1].arg
    OLD = Poly.atom("self.capacity")
    NEW = OLD + Poly.atom(par)
    cap_assign = [s for s in own_nodes(f) if isinstance(s, (ast.Assign, ast.AugAssign)) and any(attr_chain(t) == "self.capacity" for t in (s.targets if isinstance(s, ast.Assign) else [s.target]))]
    cx.need(len(cap_assign) == 1, "grow: expected exactly one assignment to self.capacity")
    cap_st = cap_assign[0]

    def reads_old(node):
        """self.capacity read at `node` is the old value: its statement precedes the capacity assignment"""
        st = fl.stmt(node)
        return st is cap_st or fl.ordered_before(st, cap_st)

    def P(e):
        # a local defined before the capacity assignment carries old-capacity semantics
        return lin.poly(e)

    # every read of self.capacity / locals derived from it must precede the capacity assignment
    for n in own_nodes(f):
        if isinstance(n, ast.Attribute) and attr_chain(n) == "self.capacity" and isinstance(n.ctx, ast.Load):
            cx.check(reads_old(n), n, construct=short(fl.stmt(n)), detail="reads the capacity before it is updated",
                     bad_detail="self.capacity is read after it was updated: the old capacity is expected here", sub="G-5")
    # G-1 new storage
    news = [c for c in own_nodes(f) if isinstance(c, ast.Call) and isinstance(c.func, ast.Attribute) and c.func.attr == "_new_buffer"]
    cx.need(len(news) == 1 and len(news[0].args) == 1, "grow: expected one self._new_buffer(n) call")
    nb = news[0]
    cx.check(P(nb.args[0]) == NEW, nb, nf=f"_new_buffer({P(nb.args[0])!r})", detail="new storage holds old capacity + requested bytes",
             bad_detail=f"new storage has {P(nb.args[0])!r} bytes, expected {NEW!r}", sub="G-1")
    nb_st = fl.stmt(nb)
    newvar = None
    if isinstance(nb_st, ast.Assign) and isinstance(nb_st.targets[0], ast.Name):
        newvar = nb_st.targets[0].id
    cx.need(newvar is not None, "grow: the new storage is not bound to a local name")
    # G-2 copy
    copies = [c for c in own_nodes(f) if isinstance(c, ast.Call) and isinstance(c.func, ast.Attribute) and c.func.attr == "copy_to_native" and norm(c.func.value) == "self"]
    cx.need(len(copies) == 1, "grow: expected one self.copy_to_native(...) call")
    cp = copies[0]
    dest, doff, soff, nby = (get_arg(cp, 0, "dest"), get_arg(cp, 1, "dest_offset"), get_arg(cp, 2, "source_offset"), get_arg(cp, 3, "nbytes"))
    cx.need(None not in (dest, doff, soff, nby), "grow: copy_to_native arguments not recognised")
    cx.check(norm(dest) == newvar, cp, construct=f"dest={norm(dest)}", detail="copies into the new storage", bad_detail="copy destination is not the new storage", sub="G-2.dest")
    cx.check(P(doff) == Poly.const(0) and P(soff) == Poly.const(0), cp, construct=f"dest_offset={norm(doff)}, source_offset={norm(soff)}",
             detail="offsets are preserved (0 -> 0)", bad_detail="copy is shifted: live offsets would address other bytes", sub="G-2.offsets")
    cx.check(P(nby) == OLD and reads_old(cp), cp, construct=f"nbytes={norm(nby)}", nf=f"nbytes = {P(nby)!r}",
             detail="every byte of the old storage is copied", bad_detail=f"copies {P(nby)!r} bytes instead of the old capacity", sub="G-2.nbytes")
    # G-3 copy precedes swap
    swaps = [s for s in own_nodes(f) if isinstance(s, ast.Assign) and any(attr_chain(t) == "self.buffer" for t in s.targets)]
    cx.need(len(swaps) == 1, "grow: expected one assignment to self.buffer")
    sw = swaps[0]
    cx.check(norm(sw.value) == newvar, sw, detail="storage replaced by the new buffer", bad_detail="self.buffer is not set to the new storage", sub="G-3.swap")
    cx.check(fl.dominates(fl.stmt(cp), sw), sw, construct="copy_to_native ... ; self.buffer = new", detail="old contents are copied before the storage is replaced",
             bad_detail="self.buffer is replaced before the copy reads it: old contents are lost", sub="G-3.order")
    # G-4 new free range
    appends = [c for c in own_nodes(f) if isinstance(c, ast.Call) and isinstance(c.func, ast.Attribute) and c.func.attr in ("append", "insert", "extend") and _is_self_chunks(c.func.value)]
    ends = [s for s in own_nodes(f) if isinstance(s, ast.Assign) and any(isinstance(t, ast.Attribute) and t.attr in ("end", "start") and isinstance(t.value, ast.Subscript) and _is_self_chunks(t.value.value) for t in s.targets)]
    cx.need(appends or ends, "grow: no update of the free list found")
    for a in appends:
        ok = False
        detail = "appended chunk is not Chunk(old capacity, new capacity)"
        if a.func.attr == "append" and len(a.args) == 1 and isinstance(a.args[0], ast.Call) and call_name(a.args[0]) == "Chunk" and len(a.args[0].args) == 2:
            s0, e0 = a.args[0].args
            ok = P(s0) == OLD and P(e0) == NEW and reads_old(a)
            detail = f"Chunk({P(s0)!r}, {P(e0)!r})"
        cx.check(ok, a, nf=detail, detail="new free range is exactly [old capacity, new capacity)", bad_detail=f"new free chunk is {detail}, expected Chunk({OLD!r}, {NEW!r})", sub="G-4.append")
    for s in ends:
        t = s.targets[0]
        is_last_end = t.attr == "end" and norm(t.value.slice) == "-1"
        val_ok = P(s.value) == NEW
        conds = fl.conds_at(s)
        touching = False
        for c in conds:
            fk = lin.fact(c.test, c.pol)
            if fk and fk[0] == "==0":
                if fk[1] in (Poly.atom("self.chunks[-1].end") - OLD, OLD - Poly.atom("self.chunks[-1].end")):
                    touching = True
        cx.check(is_last_end and val_ok and touching and reads_old(s), s,
                 detail="the last free chunk is extended only when it ends at the old capacity",
                 bad_detail="extension of a free chunk is not guarded by `last.end == old capacity` or has the wrong bound: a live region would become free", sub="G-4.extend")
    # both arms exist: exactly one of append / extend happens on every path
    top_if = [s for s in f.body if isinstance(s, ast.If) and (any(a in list(ast.walk(s)) for a in appends) or any(e in list(ast.walk(s)) for e in ends))]
    if appends and ends:
        cx.need(len(top_if) == 1, "grow: free-list update is not a single if/else")
        i = top_if[0]
        ina = all(any(a is n for n in ast.walk(ast.Module(body=i.body, type_ignores=[]))) for a in appends)
        ine = all(any(e is n for n in ast.walk(ast.Module(body=i.orelse, type_ignores=[]))) for e in ends)
        inb = all(any(a is n for n in ast.walk(ast.Module(body=i.orelse, type_ignores=[]))) for a in appends)
        inf_ = all(any(e is n for n in ast.walk(ast.Module(body=i.body, type_ignores=[]))) for e in ends)
        cx.check((ina and ine) or (inb and inf_), i, construct=f"if {short(i.test)}: ... else: ...", detail="exactly one of append/extend on each path",
                 bad_detail="append and extend are not on complementary arms", sub="G-4.arms")
    elif appends:
        for a in appends:
            cx.check(not [c for c in fl.conds_at(a) if c.kind == "if"], a, detail="unconditional append of the new range", bad_detail="the new range is added only on some paths: bytes leak", sub="G-4.arms")
    # G-5 capacity update value
    if isinstance(cap_st, ast.AugAssign):
        val = OLD + P(cap_st.value) if isinstance(cap_st.op, ast.Add) else Poly.atom("?")
    else:
        val = P(cap_st.value)
    cx.check(val == NEW, cap_st, nf=f"self.capacity := {val!r}", detail="capacity grows by the requested amount", bad_detail=f"capacity becomes {val!r}, expected {NEW!r}", sub="G-5.value")
    # growth writes no handle and no stored word
    for c in own_nodes(f):
        if isinstance(c, ast.Call) and isinstance(c.func, ast.Attribute) and c.func.attr in ("update_from_buffer", "update_from_native", "update_from_nplike", "update_from_xbuffer"):
            cx.bad(c, detail="grow must not rewrite buffer contents", sub="G-2.pure")
    cx.floor(9, "grow obligations")


# ------------------------------------------------------------------------------------------ free
def _nonempty_from_cond(lin, c):
    t, pol = c.test, c.pol
    if _is_self_chunks(t):
        return pol
    fk = lin.fact(t, pol)
    if fk:
        L = Poly.atom("len(self.chunks)")
        kind, P = fk
        if kind == "!=0" and P in (L, -L):
            return True
        if kind == ">=0":
            d = P - L
            if d.is_const() and d.const_value() <= -1:
                return True
    return False


class _NE:
    """must-analysis: is self.chunks known to be non-empty?  (typestate may-be-empty)"""

    def __init__(self, cx, func, lin, fl):
        self.cx, self.f, self.lin, self.fl = cx, func, lin, fl
        self.uses = []  # (node, ok)
        self.locals_nonempty = {}

    def expr_uses(self, node, state):
        """check constant-index subscripts / pop / index in the expressions owned by `node`"""
        for n in ast.walk(node):
            if isinstance(n, (ast.FunctionDef, ast.Lambda)):
                continue
            risky = None
            if isinstance(n, ast.Subscript) and _is_self_chunks(n.value) and not isinstance(n.slice, ast.Slice):
                risky = n
            elif isinstance(n, ast.Call) and isinstance(n.func, ast.Attribute) and _is_self_chunks(n.func.value) and n.func.attr in ("pop", "index"):
                risky = n
            if risky is None:
                continue
            ok = state
            if not ok:
                for c in self.fl.conds_at(risky):
                    if c.kind in ("bool", "compfilter", "if", "assert") and _nonempty_from_cond(self.lin, c):
                        ok = True
            if not ok:
                # try/except IndexError around the use
                p = risky
                while p is not None and p is not self.f:
                    if isinstance(p, ast.Try) and any(h.type is None or "IndexError" in norm(h.type) or "Exception" in norm(h.type) for h in p.handlers):
                        blk = p.body
                        if any(risky is x for b in blk for x in ast.walk(b)):
                            ok = True
                    p = getattr(p, "parent", None)
            self.uses.append((risky, ok))

    def effect(self, st, state):
        """state after a simple statement"""
        for n in ast.walk(st):
            if isinstance(n, ast.Call) and isinstance(n.func, ast.Attribute) and isinstance(n.func.value, ast.Name) and n.func.value.id == "self" and n.func.attr in getattr(self, "establishes", ()):
                state = True  # a method whose every normal exit leaves the free list non-empty (summary computed by F0)
            if isinstance(n, ast.Call) and isinstance(n.func, ast.Attribute) and _is_self_chunks(n.func.value):
                if n.func.attr in ("append", "insert"):
                    state = True
                elif n.func.attr in ("remove", "pop", "clear"):
                    state = False
        if isinstance(st, ast.Assign):
            for t in st.targets:
                if _is_self_chunks(t):
                    v = st.value
                    if isinstance(v, ast.List) and len(v.elts) >= 1:
                        state = True
                    elif isinstance(v, ast.Name) and self.locals_nonempty.get(v.id):
                        state = True
                    else:
                        state = False
                elif isinstance(t, ast.Name):
                    if isinstance(st.value, ast.List) and len(st.value.elts) >= 1:
                        self.locals_nonempty[t.id] = True
                    else:
                        self.locals_nonempty.pop(t.id, None)
        if isinstance(st, ast.Delete):
            for t in st.targets:
                if isinstance(t, ast.Subscript) and _is_self_chunks(t.value):
                    state = False
        return state

    def block(self, stmts, state):
        """returns state at fall-through end, or None if the block always exits"""
        from ..flow import block_exits

        for st in stmts:
            if isinstance(st, ast.If):
                self.expr_uses(st.test, state)
                t = state or any(_nonempty_from_cond(self.lin, c) for c in atoms(st.test, True))
                f = state or any(_nonempty_from_cond(self.lin, c) for c in atoms(st.test, False))
                a = self.block(st.body, t)
                b = self.block(st.orelse, f)
                if a is None and b is None:
                    return None
                state = (a if b is None else b if a is None else (a and b))
            elif isinstance(st, ast.While) and isinstance(st.test, ast.Constant) and st.test.value is True and not st.orelse:
                # `while True:` is left through `break` only: the state after it is the one at the breaks.  The body is
                # analysed from the weakest entry state (first iteration: `state`; later ones: whatever an iteration leaves)
                self.breaks = getattr(self, "breaks", [])
                self.breaks.append([])
                out = self.block(st.body, False if state is None else state and False)
                bs = self.breaks.pop()
                if not bs:
                    return None  # never falls through
                state = all(bs)
            elif isinstance(st, (ast.For, ast.While)):
                self.expr_uses(st.iter if isinstance(st, ast.For) else st.test, state)
                # a local list that is only appended to inside the loop stays non-empty
                body_removes = any(
                    isinstance(n, ast.Call) and isinstance(n.func, ast.Attribute) and _is_self_chunks(n.func.value) and n.func.attr in ("remove", "pop", "clear")
                    for s in st.body for n in ast.walk(s))
                inner = state and not body_removes
                out = self.block(st.body, inner)
                self.block(st.orelse, inner)
                state = inner if out is None else (inner and out) if not state else (state and not body_removes)
            elif isinstance(st, ast.Try):
                a = self.block(st.body, state)
                for h in st.handlers:
                    self.block(h.body, False)
                state = bool(a) and state
                if st.finalbody:
                    state = self.block(st.finalbody, state)
            elif isinstance(st, ast.With):
                state = self.block(st.body, state)
                if state is None:
                    return None
            else:
                self.expr_uses(st, state)
                state = self.effect(st, state)
                if isinstance(st, ast.Break) and getattr(self, "breaks", None):
                    self.breaks[-1].append(bool(state))
                if isinstance(st, (ast.Return, ast.Raise, ast.Continue, ast.Break)):
                    return None
        return state


@rule("F0", ["C12"], "free/grow/allocate never index a possibly empty free list; free has no failing statement")
def f0(cx):
    m = cx.m
    cls = m.cls(XB)
    meths = m.methods(cls)
    has_remover = False
    for fn in meths.values():
        for n in own_nodes(fn):
            if isinstance(n, ast.Call) and isinstance(n.func, ast.Attribute) and _is_self_chunks(n.func.value) and n.func.attr in ("remove", "pop", "clear"):
                has_remover = True
    cx.note(cls, construct="self.chunks may be empty at method entry" if has_remover else "self.chunks has no remover",
            detail="allocate removes exhausted chunks, so a completely full buffer has an empty free list")
    total = 0
    # summary: which methods leave the free list non-empty on every normal exit, whatever it was at entry
    establishes = set()
    for name in ("grow",):
        if name in meths:
            fn0 = meths[name]
            an0 = _NE(cx, fn0, Lin(Defs(fn0).resolver()), Flow(fn0))
            if an0.block(fn0.body, False) is True and not any(isinstance(x, ast.Return) for x in own_nodes(fn0)):
                establishes.add(name)
    for name in ("free", "grow", "allocate", "get_free"):
        cx.need(name in meths, f"XBuffer.{name} not found")
        fn = meths[name]
        lin = Lin(Defs(fn).resolver())
        fl = Flow(fn)
        an = _NE(cx, fn, lin, fl)
        an.establishes = establishes
        an.block(fn.body, not has_remover)
        for node, ok in an.uses:
            total += 1
            cx.check(ok, node, construct=short(fl.stmt(node) if not isinstance(fl.stmt(node), (ast.If, ast.For)) else node, 120),
                     detail="use of a fixed position of the free list is dominated by a non-emptiness fact",
                     bad_detail=f"`{short(node)}` is evaluated on a path where the free list may be empty (buffer exactly full): IndexError",
                     sub=name)
    cx.need(total >= 3, "expected at least 3 fixed-position uses of self.chunks (free x2, grow x1)")
    # free: no raise / assert / list.remove / index()
    fr = meths["free"]
    bad = 0
    for n in own_nodes(fr):
        if isinstance(n, (ast.Raise, ast.Assert)):
            cx.bad(n, detail="free must always succeed for a live region", sub="free.noraise")
            bad += 1
        if isinstance(n, ast.Call) and isinstance(n.func, ast.Attribute) and n.func.attr in ("remove", "index") and _is_self_chunks(n.func.value):
            cx.bad(n, detail="list.remove/index of a possibly absent element can raise", sub="free.noraise")
            bad += 1
    if not bad:
        cx.ok(fr, construct="free: no raise/assert/remove/index", detail="no statement of free can refuse", sub="free.noraise")


@rule("F1", ["C04", "C12"], "free: inserted range is [offset, offset+size); sorted insertion; merge pass keeps or merges every chunk")
def f1(cx):
    m = cx.m
    f = m.func(f"{XB}.free")
    lin, d = _lin_for(m, f)
    fl = Flow(f)
    params = [a.arg for a in f.args.args]
    cx.need(params[:3] == ["self", "offset", "size"], "free: expected (self, offset, size)")
    OFF, SZ = Poly.atom("offset"), Poly.atom("size")
    # F-1
    chunks = [c for c in own_nodes(f) if isinstance(c, ast.Call) and call_name(c) == "Chunk"]
    cx.need(len(chunks) >= 1, "free: no Chunk(...) constructed")
    nch = None
    for c in chunks:
        cx.need(len(c.args) == 2, "Chunk(...) with unexpected arity")
        s0, e0 = lin.poly(c.args[0]), lin.poly(c.args[1])
        cx.check(s0 == OFF and e0 == OFF + SZ, c, nf=f"Chunk({s0!r}, {e0!r})", detail="freed range is exactly the region given back",
                 bad_detail=f"freed range is [{s0!r}, {e0!r}) instead of [offset, offset+size)", sub="F-1")
        st = fl.stmt(c)
        if isinstance(st, ast.Assign) and isinstance(st.targets[0], ast.Name):
            nch = st.targets[0].id
    cx.need(nch is not None, "free: the new chunk is not bound to a local")
    # F-2 sorted insertion
    ins = [c for c in own_nodes(f) if isinstance(c, ast.Call) and isinstance(c.func, ast.Attribute) and _is_self_chunks(c.func.value) and c.func.attr in ("append", "insert")]
    cx.need(len(ins) >= 1, "free: no insertion into self.chunks")
    # The shape-specific diagnostics F-2/F-3 apply to the known skeleton only (append-or-scan insertion, running-
    # predecessor merge loop).  Any other shape is decided as a whole by rule FM (order-type abstract
    # interpretation of free()), which does not depend on how the code is written.
    def _known_insert(c):
        if c.func.attr == "append":
            return True
        loops = fl.loops_at(c)
        if not loops:
            return False
        lp = loops[-1]
        return isinstance(lp.iter, ast.Call) and call_name(lp.iter) == "enumerate" and bool(lp.iter.args) and _is_self_chunks(lp.iter.args[0]) and isinstance(lp.target, ast.Tuple) and len(lp.target.elts) == 2
    if not all(_known_insert(c) for c in ins):
        cx.note(f, construct="free: insertion has another shape than append / `for i, ch in enumerate(self.chunks): if offset <= ch.start: insert; break`", detail="decided by rule FM")
        ins = []
    LAST = Poly.atom("self.chunks[-1].start")
    append_negated = None
    loop_test = None
    for c in ins:
        conds = fl.conds_at(c)
        if c.func.attr == "append":
            cx.check(len(c.args) == 1 and norm(c.args[0]) == nch, c, detail="appends the freed chunk", bad_detail="appends something else than the freed chunk", sub="F-2.what")
            # under: empty or offset > last.start (>= accepted)
            st = fl.stmt(c)
            ifs = [x for x in conds if x.kind == "if"]
            ok = False
            why = "append is not guarded by `offset > last.start` (or emptiness)"
            parent_if = st.parent if isinstance(st.parent, ast.If) and st in st.parent.body else None
            if parent_if is not None:
                disj = parent_if.test.values if isinstance(parent_if.test, ast.BoolOp) and isinstance(parent_if.test.op, ast.Or) else [parent_if.test]
                good = True
                for dj in disj:
                    fk = lin.fact(dj, True)
                    if fk and fk[0] == "==0" and fk[1] in (Poly.atom("len(self.chunks)"), -Poly.atom("len(self.chunks)")):
                        continue
                    if isinstance(dj, ast.UnaryOp) and isinstance(dj.op, ast.Not) and _is_self_chunks(dj.operand):
                        continue
                    if fk and fk[0] == ">=0":
                        dd = fk[1] - (OFF - LAST)
                        if dd.is_const() and dd.const_value() <= 0 and dd.const_value() >= -1:
                            append_negated = (">=0", LAST - OFF - Poly.const(1) - dd)  # negation of the disjunct
                            continue
                    good = False
                    why = f"append guarded by `{short(dj)}` which does not place the chunk after the last start"
                ok = good
            elif not ifs:
                why = "unconditional append does not keep the list sorted"
            cx.check(ok, c, construct=f"append under {short(parent_if.test) if parent_if is not None else 'no guard'}",
                     detail="appending keeps the list sorted by start", bad_detail=why, sub="F-2.append")
        else:
            loops = fl.loops_at(c)
            cx.need(loops, "free: insert outside a loop")
            lp = loops[-1]
            good_iter = isinstance(lp.iter, ast.Call) and call_name(lp.iter) == "enumerate" and lp.iter.args and _is_self_chunks(lp.iter.args[0])
            cx.need(good_iter and isinstance(lp.target, ast.Tuple) and len(lp.target.elts) == 2, "free: insertion loop is not `for i, ch in enumerate(self.chunks)`")
            iv, cv = norm(lp.target.elts[0]), norm(lp.target.elts[1])
            cx.check(len(c.args) == 2 and norm(c.args[0]) == iv and norm(c.args[1]) == nch, c, detail="inserts the freed chunk at the scan position",
                     bad_detail="insert position/value is not (loop index, freed chunk)", sub="F-2.what")
            ok = False
            for x in conds:
                fk = lin.fact(x.test, x.pol)
                if fk and fk[0] == ">=0":
                    dd = fk[1] - (Poly.atom(f"{cv}.start") - OFF)
                    if dd.is_const() and -1 <= dd.const_value() <= 0:
                        ok = True
                        loop_test = (">=0", (LAST - OFF) + dd)
            cx.check(ok, c, detail="inserted before the first chunk that does not start earlier", bad_detail="insert is not guarded by `offset <= ch.start`", sub="F-2.insert")
            # must break right after (single insertion)
            st = fl.stmt(c)
            blk = st.parent.body if st in getattr(st.parent, "body", []) else getattr(st.parent, "orelse", [])
            after = blk[blk.index(st) + 1 :]
            cx.check(any(isinstance(a, (ast.Break, ast.Return)) for a in after), c, construct="insert; break", detail="exactly one insertion",
                     bad_detail="no break after the insertion: the chunk is inserted repeatedly", sub="F-2.once")
    if append_negated is not None and loop_test is not None:
        # not(append test) must imply the loop test for ch = last chunk
        d0 = loop_test[1] - append_negated[1]
        cx.check(d0.is_const() and d0.const_value() >= 0, f, construct="not(append test) => loop test at the last chunk",
                 nf=f"{append_negated[1]!r} >= 0  =>  {loop_test[1]!r} >= 0",
                 detail="when the chunk is not appended the scan always finds an insertion point",
                 bad_detail="a freed region starting exactly at the last chunk's start is neither appended nor inserted: it is lost", sub="F-2.complete")
    # F-3 merge pass
    fors = [l for l in f.body if isinstance(l, ast.For) and isinstance(l.iter, ast.Subscript) and _is_self_chunks(l.iter.value)]
    def _known_merge(lp):
        if not (len(lp.body) == 1 and isinstance(lp.body[0], ast.If) and isinstance(lp.target, ast.Name)):
            return False
        t = lp.body[0].test
        return isinstance(t, ast.Call) and isinstance(t.func, ast.Attribute) and t.func.attr == "overlaps" and len(t.args) == 1 and isinstance(t.func.value, ast.Name) and isinstance(t.args[0], ast.Name)
    if len(fors) != 1 or not _known_merge(fors[0]):
        # another shape of the merge pass: its behaviour is decided as a whole by rule FM (order-type
        # abstract interpretation of free()); the shape-specific diagnostics below do not apply
        cx.note(f, construct="free: merge pass has another shape than `for ch in self.chunks[1:]: if pch.overlaps(ch) ...`", detail="decided by rule FM")
        cx.floor(1, "free obligations")
        return
    lp = fors[0]
    sl = lp.iter.slice
    cx.check(isinstance(sl, ast.Slice) and sl.lower is not None and norm(sl.lower) == "1" and sl.upper is None and sl.step is None, lp,
             construct=f"for {norm(lp.target)} in {norm(lp.iter)}", detail="merge pass visits every chunk after the first", bad_detail="merge pass skips chunks", sub="F-3.iter")
    cv = norm(lp.target)
    cx.need(len(lp.body) == 1 and isinstance(lp.body[0], ast.If), "free: merge loop body is not a single if/else")
    iff = lp.body[0]
    t = iff.test
    cx.need(isinstance(t, ast.Call) and isinstance(t.func, ast.Attribute) and t.func.attr == "overlaps" and len(t.args) == 1, "free: merge test is not X.overlaps(Y)")
    pv = norm(t.func.value)
    pair_ok = {pv, norm(t.args[0])} == {pv, cv} and pv != cv
    # predecessor initialisation
    pdefs = d.defs_of(pv)
    init_ok = any(v is not None and norm(v) == "self.chunks[0]" for v, _ in pdefs)
    cx.check(pair_ok and init_ok, iff, construct=f"if {norm(t)}", detail="each chunk is compared with the running predecessor, starting from the first chunk",
             bad_detail="merge test does not compare the running predecessor (initialised to self.chunks[0]) with the current chunk", sub="F-3.pair")
    merges = [c for s in iff.body for c in ast.walk(s) if isinstance(c, ast.Call) and isinstance(c.func, ast.Attribute) and c.func.attr == "merge"]
    cx.check(len(merges) == 1 and norm(merges[0].func.value) == pv and len(merges[0].args) == 1 and norm(merges[0].args[0]) == cv, iff,
             construct=f"{pv}.merge({cv})", detail="an overlapping/touching chunk is merged into its predecessor", bad_detail="overlap arm does not merge the current chunk into the predecessor", sub="F-3.merge")
    apps = [c for s in iff.orelse for c in ast.walk(s) if isinstance(c, ast.Call) and isinstance(c.func, ast.Attribute) and c.func.attr == "append"]
    cx.need(len(apps) == 1, "free: non-overlap arm has no single append")
    newl = norm(apps[0].func.value)
    keep_ok = len(apps[0].args) == 1 and norm(apps[0].args[0]) == cv
    adv = any(isinstance(s, ast.Assign) and norm(s.targets[0]) == pv and norm(s.value) == cv for s in iff.orelse)
    cx.check(keep_ok and adv, iff, construct=f"else: {newl}.append({cv}); {pv} = {cv}", detail="a separate chunk is kept and becomes the predecessor",
             bad_detail="non-overlap arm does not keep the chunk and advance the predecessor", sub="F-3.keep")
    ndefs = d.defs_of(newl)
    init2 = any(isinstance(v, ast.List) and len(v.elts) == 1 and norm(v.elts[0]) == pv for v, _ in ndefs)
    final = [s for s in f.body if isinstance(s, ast.Assign) and _is_self_chunks(s.targets[0]) and norm(s.value) == newl and fl.info[s].order > fl.info[lp].order]
    cx.check(init2 and len(final) == 1, final[0] if final else f, construct=f"{newl} = [{pv}] ... self.chunks = {newl}", detail="the merged list (starting with the first chunk) replaces the free list",
             bad_detail="merged list does not start with the first chunk or is not stored back", sub="F-3.store")
    cx.floor(1 if any(i.verdict == "note" for i in cx.insts) else 8, "free obligations")


@rule("F4", ["C12", "C04"], "Chunk.overlaps is non-strict on both sides (touching chunks merge); merge takes min/max; size = end-start; get_free sums sizes")
def f4(cx):
    m = cx.m
    ov = m.func("context::Chunk.overlaps")
    rets = [n for n in own_nodes(ov) if isinstance(n, ast.Return)]
    cx.need(len(rets) == 1, "Chunk.overlaps: single return expected")
    params = [a.arg for a in ov.args.args]
    cx.need(len(params) == 2, "Chunk.overlaps(self, other) expected")
    s, o = params
    lin = Lin()
    facts = []
    for c in atoms(rets[0].value, True):
        fk = lin.fact(c.test, c.pol)
        cx.need(fk is not None and fk[0] == ">=0", f"Chunk.overlaps: `{c.text()}` is not an ordering comparison")
        facts.append(fk[1])
    want = [Poly.atom(f"{o}.end") - Poly.atom(f"{s}.start"), Poly.atom(f"{s}.end") - Poly.atom(f"{o}.start")]
    for w in want:
        hit = [p for p in facts if (p - w).is_const()]
        if not hit:
            cx.bad(rets[0], detail=f"no comparison of the form {w!r} >= c: overlap test incomplete", sub="F-4.overlaps")
            continue
        k = (w - hit[0]).const_value()
        cx.check(k == 0, rets[0], nf=f"{w!r} >= {k}", detail="touching counts as overlapping",
                 bad_detail=("strict comparison: adjacent free chunks are not merged, two freed neighbours cannot serve one larger request" if k > 0 else "comparison is too weak: chunks separated by a live byte are merged"),
                 sub="F-4.overlaps")
    cx.check(len(facts) == 2, rets[0], detail="exactly the two interval conditions", bad_detail=f"{len(facts)} conditions in overlaps", sub="F-4.arity")
    mg = m.func("context::Chunk.merge")
    got = {}
    for st in own_nodes(mg):
        if isinstance(st, ast.Assign) and isinstance(st.targets[0], ast.Attribute) and norm(st.targets[0].value) == "self":
            got[st.targets[0].attr] = st
    for attr, fn in (("start", "min"), ("end", "max")):
        st = got.get(attr)
        cx.need(st is not None, f"Chunk.merge does not assign self.{attr}")
        v = st.value
        if not (isinstance(v, ast.Call) and call_name(v) in ("min", "max")):
            # another way of taking the union (e.g. conditional assignments): decided by rule FM, which evaluates
            # merge/overlaps on every order type instead of recognising their shape
            cx.note(st, construct=f"Chunk.merge: self.{attr} is not assigned a min/max call", detail="decided by rule FM")
            continue
        ok = isinstance(v, ast.Call) and call_name(v) == fn and {norm(a) for a in v.args} == {f"self.{attr}", f"{mg.args.args[1].arg}.{attr}"}
        cx.check(ok, st, detail=f"merged {attr} is the {fn} of both", bad_detail=f"merged {attr} is not {fn}(self.{attr}, other.{attr})", sub="F-4.merge")
    sz = m.func("context::Chunk.size")
    r = [n for n in own_nodes(sz) if isinstance(n, ast.Return)]
    cx.need(len(r) == 1, "Chunk.size: single return expected")
    cx.check(lin.poly(r[0].value) == Poly.atom("self.end") - Poly.atom("self.start"), r[0], nf=repr(lin.poly(r[0].value)), detail="size = end - start", bad_detail="Chunk.size is not end - start", sub="F-5.size")
    gf = m.func(f"{XB}.get_free")
    r = [n for n in own_nodes(gf) if isinstance(n, ast.Return)]
    cx.need(len(r) == 1, "get_free: single return expected")
    v = r[0].value
    ok = False
    if isinstance(v, ast.Call) and call_name(v) == "sum" and len(v.args) == 1:
        a = v.args[0]
        if isinstance(a, (ast.ListComp, ast.GeneratorExp)) and len(a.generators) == 1:
            g = a.generators[0]
            tv = norm(g.target)
            elt_ok = norm(a.elt) in (f"{tv}.size", f"{tv}.end - {tv}.start")
            ok = elt_ok and _is_self_chunks(g.iter) and not g.ifs
    if not ok and not (isinstance(v, ast.Call) and call_name(v) == "sum"):
        cx.note(r[0], construct="get_free is not written as sum(...)", detail="accounting decided by rule FM (get_free grows by the freed size on every order type)")
    else:
        cx.check(ok, r[0], detail="free total is the sum of the sizes of all free chunks", bad_detail="get_free is not sum(ch.size for ch in self.chunks)", sub="F-5.get_free")


@rule("NB", ["C04", "C13"], "_new_buffer(capacity) yields exactly `capacity` bytes in every buffer kind")
def nb(cx):
    m = cx.m
    for spec, ctor in (("context_cpu::BufferByteArray._new_buffer", "bytearray"), ("context_cpu::BufferNumpy._new_buffer", "zeros"), ("context_cupy::BufferCupy._new_buffer", "zeros")):
        f = m.func(spec)
        r = [n for n in own_nodes(f) if isinstance(n, ast.Return)]
        cx.need(len(r) == 1 and isinstance(r[0].value, ast.Call), f"{spec}: single constructor return expected")
        c = r[0].value
        par = f.args.args[1].arg
        n_arg = get_arg(c, 0, "shape")
        ok = call_name(c) == ctor and n_arg is not None and norm(n_arg) in (par, f"({par},)", f"[{par}]")
        dt = get_arg(c, 1, "dtype")
        if ctor == "zeros":
            ok = ok and dt is not None and any(k in norm(dt) for k in ("int8", "uint8", "byte"))
        cx.check(ok, r[0], detail=f"{ctor} of `{par}` one-byte elements, zero-initialised", bad_detail="new storage does not hold exactly `capacity` bytes")
