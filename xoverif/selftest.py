def run_selftest(prop, root):
    return {"summary": {}, "lines": [], "failed": 0, "failed_names": []}
