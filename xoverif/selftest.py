"""Self-validation of the rules (thorough tier): breaking variants must be reported, benign variants
must stay silent.  Variants are textual edits applied to a scratch copy of the analysed tree (outside
/repo and /verif), analysed in-process and deleted.  Results are evidence (`coverage.selftest`) and are
printed as `selftest:` lines -- never in the VIOLATION format, which is reserved for /repo."""
import json
import os
import shutil
import tempfile
from concurrent.futures import ProcessPoolExecutor

from .core import VERIF
from .srcmodel import AnalysisError


def load_variants():
    p = os.path.join(VERIF, "selftest", "variants.json")
    with open(p) as fh:
        return json.load(fh)


def _scratch(root):
    base = "/dev/shm" if os.path.isdir("/dev/shm") else tempfile.gettempdir()
    d = tempfile.mkdtemp(prefix="xoverif_st_", dir=base)
    shutil.copytree(os.path.join(root, "xobjects"), os.path.join(d, "xobjects"), ignore=shutil.ignore_patterns("__pycache__"))
    for rel in ("Architecture.md", "docs/architecture/types.rst"):
        src = os.path.join(root, rel)
        if os.path.isfile(src):
            os.makedirs(os.path.dirname(os.path.join(d, rel)), exist_ok=True)
            shutil.copy(src, os.path.join(d, rel))
    return d


def run_variant(args):
    v, prop, root = args
    from . import core
    from .check import load_rules
    from .srcmodel import Model

    load_rules()
    # variants run side by side: the history rules' own worker pools stay small (no nested explosion of processes)
    os.environ["XOVERIF_JOBS"] = os.environ.get("XOVERIF_SELFTEST_INNER_JOBS", "2")
    d = _scratch(root)
    try:
        if v.get("patch"):
            import subprocess

            r = subprocess.run(["patch", "-p1", "-s", "-i", os.path.join(VERIF, v["patch"])], cwd=d, capture_output=True, text=True)
            if r.returncode != 0:
                return (v["id"], "stale", f"seeded patch no longer applies: {(r.stdout + r.stderr)[:80]}")
        if v.get("tree"):
            shutil.rmtree(d, ignore_errors=True)
            d = os.path.join(VERIF, v["tree"])
        p = None
        for ed in v.get("edits", []):
            p = os.path.join(d, ed["file"])
            s = open(p, encoding="utf8").read()
            if s.count(ed["find"]) != 1:
                return (v["id"], "stale", f"`{ed['find'][:50]}` occurs {s.count(ed['find'])}x in {ed['file']}")
            s = s.replace(ed["find"], ed["replace"])
            open(p, "w", encoding="utf8").write(s)
        try:
            if p:
                compile(open(p, encoding="utf8").read(), p, "exec")
        except SyntaxError as e:
            return (v["id"], "stale", f"variant does not compile: {e}")
        model = Model(d)
        insts, errors, _ = core.run_rules(model, prop, "quick")
        bad = [i for i in insts if i.verdict == core.BAD]
        if v["expect"] == "detect":
            if bad:
                want = v.get("rule")
                if want and not any(i.rule == want or i.rule.startswith(want) or want in i.rule.split(".") for i in bad):
                    return (v["id"], "wrong-rule", f"reported by {sorted({i.rule for i in bad})}, expected {want}")
                return (v["id"], "detected", bad[0].rule + ": " + (bad[0].detail or bad[0].construct)[:120])
            if errors:
                return (v["id"], "analysis-error", errors[0][:160])
            return (v["id"], "missed", "")
        else:
            if bad:
                return (v["id"], "false-alarm", bad[0].rule + ": " + (bad[0].detail or bad[0].construct)[:120])
            if errors:
                return (v["id"], "analysis-error", errors[0][:160])
            return (v["id"], "silent", "")
    finally:
        if not v.get("tree"):
            shutil.rmtree(d, ignore_errors=True)


def seeded_variants():
    """every kept seeded change (sub-agent written, confirmed) is a breaking variant of the properties whose
    checks reported it when it was taken in (meta.json), at least of the property it was written against"""
    out = []
    base = os.path.join(VERIF, "seeded")
    for name in sorted(os.listdir(base)) if os.path.isdir(base) else []:
        mp = os.path.join(base, name, "meta.json")
        if not os.path.isfile(mp):
            continue
        meta = json.load(open(mp))
        det = meta.get("result", {}).get("checks_reporting", {})
        props = sorted({meta["breaks_property"]} | {k for k, x in det.items() if x.get("rc") == 1})
        if meta.get("status") == "benign-after-fix":
            # a later fix: commit made this change harmless (its demonstration passes with it): it is now a
            # behaviour-preserving variant and every check must stay silent on it
            allp = sorted({json.loads(l)["id"] for l in open(os.path.join(VERIF, "properties.jsonl"))})
            out.append({"id": f"seeded-{name}-now-benign", "props": allp, "expect": "silent", "rule": None, "patch": f"seeded/{name}/patch.diff"})
            continue
        out.append({"id": f"seeded-{name}", "props": props, "expect": "detect", "rule": None, "patch": f"seeded/{name}/patch.diff"})
    return out


def pinned_variants():
    """defective twins: the pinned tree (before any fix: commit) must be reported by the rule each `fixed`
    entry of known_findings.json names -- this is what guarantees a repaired defect is reported again if it returns"""
    from .core import load_known

    out = []
    for e in load_known().get("fixed", []):
        if e.get("pinned", True):
            out.append({"id": f"pinned-{e['id']}", "props": list(e["properties"]), "expect": "detect", "rule": e["rule"], "tree": "fixtures/pinned_tree"})
    return out


def run_selftest(prop, root, jobs=8):
    vs = [v for v in load_variants() + seeded_variants() + pinned_variants() if prop in v["props"]]
    lines, failed, names = [], 0, []
    out = {"detected": 0, "silent": 0, "missed": 0, "false-alarm": 0, "stale": 0, "analysis-error": 0, "wrong-rule": 0}
    if not vs:
        return {"summary": {"variants": 0}, "lines": [], "failed": 0, "failed_names": []}
    with ProcessPoolExecutor(max_workers=min(jobs, len(vs))) as ex:
        res = list(ex.map(run_variant, [(v, prop, root) for v in vs]))
    for vid, status, msg in res:
        out[status] = out.get(status, 0) + 1
        lines.append(f"selftest: variant {vid} {status} {msg}")
        if status not in ("detected", "silent"):
            failed += 1
            names.append(f"{vid}:{status}")
    summary = {"variants": len(vs), **out}
    return {"summary": summary, "lines": lines, "failed": failed, "failed_names": names}


if __name__ == "__main__":
    import sys

    from .check import load_rules

    load_rules()
    props = sys.argv[1:] or sorted({p for v in load_variants() for p in v["props"]})
    tot = 0
    for p in props:
        r = run_selftest(p, "/repo")
        bad = [l for l in r["lines"] if not (" detected " in l or " silent " in l)]
        print(p, r["summary"])
        for l in bad:
            print("   ", l)
        tot += r["failed"]
    sys.exit(1 if tot else 0)
