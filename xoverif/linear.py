"""Polynomial normal forms of integer expressions (no solver).

A Poly is {monomial: coeff} with monomial = sorted tuple of atom strings (() = constant).
Atoms are names, attribute chains, opaque calls, and *idiom nodes* (and/floordiv/mod/shift
over normalised operands).  Comparisons normalise to  P >= 0 / P == 0 / P != 0.
"""
import ast

from .srcmodel import norm


class Poly:
    __slots__ = ("t",)

    def __init__(self, t=None):
        self.t = {k: v for k, v in (t or {}).items() if v != 0}

    @staticmethod
    def const(c):
        return Poly({(): c})

    @staticmethod
    def atom(a):
        return Poly({(a,): 1})

    def is_const(self):
        return all(k == () for k in self.t)

    def const_value(self):
        return self.t.get((), 0)

    def __add__(self, o):
        t = dict(self.t)
        for k, v in o.t.items():
            t[k] = t.get(k, 0) + v
        return Poly(t)

    def __neg__(self):
        return Poly({k: -v for k, v in self.t.items()})

    def __sub__(self, o):
        return self + (-o)

    def __mul__(self, o):
        t = {}
        for k1, v1 in self.t.items():
            for k2, v2 in o.t.items():
                k = tuple(sorted(k1 + k2))
                t[k] = t.get(k, 0) + v1 * v2
        return Poly(t)

    def __eq__(self, o):
        return isinstance(o, Poly) and self.t == o.t

    def __hash__(self):
        return hash(tuple(sorted(self.t.items())))

    def atoms(self):
        s = set()
        for k in self.t:
            s.update(k)
        return s

    def coeff(self, *mono):
        return self.t.get(tuple(sorted(mono)), 0)

    def drop(self, *mono):
        t = dict(self.t)
        t.pop(tuple(sorted(mono)), None)
        return Poly(t)

    def subst(self, atom, poly):
        out = Poly()
        for k, v in self.t.items():
            term = Poly.const(v)
            for a in k:
                term = term * (poly if a == atom else Poly.atom(a))
            out = out + term
        return out

    def __repr__(self):
        if not self.t:
            return "0"
        parts = []
        for k in sorted(self.t, key=lambda k: (len(k), k)):
            v = self.t[k]
            if k == ():
                parts.append(str(v))
            else:
                m = "*".join(k)
                parts.append(m if v == 1 else (f"-{m}" if v == -1 else f"{v}*{m}"))
        return " + ".join(parts).replace("+ -", "- ")


class Lin:
    """expression normaliser with a resolver for names"""

    def __init__(self, resolve=None, inline=None):
        # resolve(name_or_chain:str, node) -> ast expr | Poly | None
        self.resolve = resolve or (lambda name, node: None)
        # inline: {func_name: (param_names, return_expr_ast)} one-line pure helpers
        self.inline = inline or {}
        self._depth = 0

    def poly(self, e, env=None):
        env = env or {}
        if isinstance(e, Poly):
            return e
        if isinstance(e, int):
            return Poly.const(e)
        if isinstance(e, ast.Constant):
            if isinstance(e.value, bool):
                return Poly.atom(repr(e.value))
            if isinstance(e.value, int):
                return Poly.const(e.value)
            return Poly.atom(repr(e.value))
        if isinstance(e, ast.Name):
            if e.id in env:
                v = env[e.id]
                return v if isinstance(v, Poly) else self.poly(v, env)
            r = self._res(e.id, e)
            if r is not None:
                return r
            return Poly.atom(e.id)
        if isinstance(e, ast.Attribute):
            txt = norm(e)
            if txt in env:
                v = env[txt]
                return v if isinstance(v, Poly) else self.poly(v, env)
            r = self._res(txt, e)
            if r is not None:
                return r
            return Poly.atom(txt)
        if isinstance(e, ast.UnaryOp):
            if isinstance(e.op, ast.USub):
                return -self.poly(e.operand, env)
            if isinstance(e.op, ast.UAdd):
                return self.poly(e.operand, env)
            if isinstance(e.op, ast.Invert):
                return -self.poly(e.operand, env) - Poly.const(1)
        if isinstance(e, ast.BinOp):
            a = self.poly(e.left, env)
            b = self.poly(e.right, env)
            if isinstance(e.op, ast.Add):
                return a + b
            if isinstance(e.op, ast.Sub):
                return a - b
            if isinstance(e.op, ast.Mult):
                return a * b
            if isinstance(e.op, ast.Pow) and a.is_const() and b.is_const() and b.const_value() >= 0:
                return Poly.const(a.const_value() ** b.const_value())
            if isinstance(e.op, ast.LShift) and b.is_const() and b.const_value() >= 0:
                return a * Poly.const(2 ** b.const_value())
            opn = {
                ast.BitAnd: "and",
                ast.BitOr: "or",
                ast.FloorDiv: "floordiv",
                ast.Mod: "mod",
                ast.Div: "div",
                ast.RShift: "rshift",
                ast.BitXor: "xor",
                ast.Pow: "pow",
                ast.LShift: "lshift",
                ast.MatMult: "matmul",
            }.get(type(e.op), type(e.op).__name__)
            if a.is_const() and b.is_const():
                x, y = a.const_value(), b.const_value()
                try:
                    if opn == "and":
                        return Poly.const(x & y)
                    if opn == "or":
                        return Poly.const(x | y)
                    if opn == "floordiv":
                        return Poly.const(x // y)
                    if opn == "mod":
                        return Poly.const(x % y)
                    if opn == "rshift":
                        return Poly.const(x >> y)
                except Exception:
                    pass
            if opn in ("and", "or", "xor"):  # commutative
                ops = sorted([repr(a), repr(b)])
                return Poly.atom(f"{opn}({ops[0]}, {ops[1]})")
            return Poly.atom(f"{opn}({a!r}, {b!r})")
        if isinstance(e, ast.Call):
            fn = e.func
            name = fn.id if isinstance(fn, ast.Name) else None
            if name in self.inline and self._depth < 4 and not e.keywords:
                params, body = self.inline[name]
                if len(params) == len(e.args):
                    sub = {p: self.poly(a, env) for p, a in zip(params, e.args)}
                    self._depth += 1
                    try:
                        return self.poly(body, sub)
                    finally:
                        self._depth -= 1
            if name == "int" and len(e.args) == 1:
                return self.poly(e.args[0], env)
            # opaque call: normalise arguments
            args = ", ".join(self._argtxt(a, env) for a in e.args)
            kws = ", ".join(f"{k.arg}={self._argtxt(k.value, env)}" for k in e.keywords)
            return Poly.atom(f"{norm(fn)}({', '.join(x for x in (args, kws) if x)})")
        if isinstance(e, ast.Subscript):
            base = norm(e.value)
            return Poly.atom(f"{base}[{self._argtxt(e.slice, env)}]")
        return Poly.atom(norm(e))

    def _argtxt(self, a, env):
        if isinstance(a, (ast.BinOp, ast.UnaryOp, ast.Name, ast.Attribute)) or (
            isinstance(a, ast.Constant) and isinstance(a.value, int)
        ):
            return repr(self.poly(a, env))
        return norm(a)

    def _res(self, name, node):
        if self._depth > 6:
            return None
        r = self.resolve(name, node)
        if r is None:
            return None
        if isinstance(r, Poly):
            return r
        self._depth += 1
        try:
            return self.poly(r)
        finally:
            self._depth -= 1

    # ------------------------------------------------------------------ comparisons
    def fact(self, test, pol=True):
        """normalise a comparison to (kind, Poly) with kind in {'>=0','==0','!=0'}; None if not one"""
        if isinstance(test, ast.UnaryOp) and isinstance(test.op, ast.Not):
            return self.fact(test.operand, not pol)
        if not isinstance(test, ast.Compare) or len(test.ops) != 1:
            return None
        a = self.poly(test.left)
        b = self.poly(test.comparators[0])
        op = type(test.ops[0])
        if not pol:
            op = {
                ast.Lt: ast.GtE,
                ast.LtE: ast.Gt,
                ast.Gt: ast.LtE,
                ast.GtE: ast.Lt,
                ast.Eq: ast.NotEq,
                ast.NotEq: ast.Eq,
            }.get(op)
            if op is None:
                return None
        one = Poly.const(1)
        if op is ast.GtE:
            return (">=0", a - b)
        if op is ast.Gt:
            return (">=0", a - b - one)
        if op is ast.LtE:
            return (">=0", b - a)
        if op is ast.Lt:
            return (">=0", b - a - one)
        if op is ast.Eq:
            d = a - b
            return ("==0", d if _lead_pos(d) else -d)
        if op is ast.NotEq:
            d = a - b
            return ("!=0", d if _lead_pos(d) else -d)
        return None


def _lead_pos(p):
    if not p.t:
        return True
    k = sorted(p.t, key=lambda k: (len(k), k))[-1]
    return p.t[k] > 0


def one_line_helpers(model, specs):
    """{name: (params, return expr)} for package helpers whose body is `return <expr>`"""
    out = {}
    for spec in specs:
        f = model.lookup(spec, optional=True)
        if f is None:
            continue
        body = [s for s in f.body if not (isinstance(s, ast.Expr) and isinstance(s.value, ast.Constant))]
        if len(body) == 1 and isinstance(body[0], ast.Return) and body[0].value is not None:
            out[f.name] = ([a.arg for a in f.args.args], body[0].value)
    return out


# ---------------------------------------------------------------------- reaching definitions
class Defs:
    """single-assignment resolution inside one function: a local name assigned exactly once
    (simple `name = expr`) is replaced by its definition; names assigned in several places keep
    all their definitions available through defs_of()."""

    def __init__(self, func):
        self.func = func
        self.assigns = {}
        self.params = set()
        a = func.args
        for x in a.posonlyargs + a.args + a.kwonlyargs:
            self.params.add(x.arg)
        if a.vararg:
            self.params.add(a.vararg.arg)
        if a.kwarg:
            self.params.add(a.kwarg.arg)
        stack = list(func.body)
        while stack:
            n = stack.pop()
            if isinstance(n, (ast.FunctionDef, ast.ClassDef, ast.Lambda)):
                continue
            if isinstance(n, ast.Assign):
                for t in n.targets:
                    self._tgt(t, n.value, n)
            elif isinstance(n, ast.AugAssign):
                self._tgt(n.target, None, n)
            elif isinstance(n, ast.AnnAssign) and n.value is not None:
                self._tgt(n.target, n.value, n)
            elif isinstance(n, ast.For):
                self._tgt(n.target, None, n)
            elif isinstance(n, ast.NamedExpr):
                self._tgt(n.target, n.value, n)
            elif isinstance(n, ast.With):
                for it in n.items:
                    if it.optional_vars is not None:
                        self._tgt(it.optional_vars, None, n)
            elif isinstance(n, (ast.ListComp, ast.SetComp, ast.GeneratorExp, ast.DictComp)):
                pass
            stack.extend(ast.iter_child_nodes(n))

    def _tgt(self, t, value, st):
        if isinstance(t, ast.Name):
            self.assigns.setdefault(t.id, []).append((value, st))
        elif isinstance(t, (ast.Tuple, ast.List)):
            for i, e in enumerate(t.elts):
                v = None
                if isinstance(value, (ast.Tuple, ast.List)) and len(value.elts) == len(t.elts):
                    v = value.elts[i]
                self._tgt(e, v, st)
        elif isinstance(t, ast.Starred):
            self._tgt(t.value, None, st)

    def defs_of(self, name):
        return self.assigns.get(name, [])

    def single(self, name):
        """the unique defining expression of a local, or None"""
        if name in self.params:
            return None
        d = self.assigns.get(name, [])
        if len(d) == 1 and d[0][0] is not None:
            return d[0][0]
        return None

    def resolver(self):
        def res(name, node):
            if "." in name:
                return None
            v = self.single(name)
            if v is None:
                return None
            # do not expand self-referential definitions
            for n in ast.walk(v):
                if isinstance(n, ast.Name) and n.id == name:
                    return None
            return v

        return res
