"""Abstract buffer / abstract memory and abstract type descriptors for the partial evaluator.

The scalar helpers (`NumpyScalar._to_buffer` ...) are summarised by hooks acting on the abstract
memory (their own correctness is rule SC); buffer primitives are recorded as effects.
"""
import ast

from .linear import Poly
from .peval import Builtin, Effect, Interp, NpInt, Obj, Opaque, PyExc, SArr, Sym, fromp, topoly
from .srcmodel import AnalysisError


def P(v):
    p = topoly(v)
    if p is None:
        raise AnalysisError(f"absmem: position/size `{v!r}` is not an integer expression")
    return p


def key(v):
    return repr(P(v))


class Snapshot(Opaque):
    """what to_bytearray(position, n) returns when the bytes are not one known string: opaque to the code, but it
    remembers the known words and byte strings of the range, so that update_from_buffer(position, <it>) restores them"""

    def __init__(self, tag, pos, nbytes, words, bytes_):
        Opaque.__init__(self, tag)
        self.pos, self.nbytes, self.words, self.bytes = pos, nbytes, list(words), list(bytes_)  # words / bytes: [(relative offset, value)]

    def __eq__(self, other):
        return self is other

    def __hash__(self):
        return id(self)

    def __deepcopy__(self, memo):
        return self


class World:
    """one interpreter + abstract buffer + hooks; reset per path by Interp.explore"""

    def __init__(self, model):
        self.I = Interp(model)
        I = self.I
        self.buffer = self.mk_buffer("buf")
        I.call_hooks["NumpyScalar._to_buffer"] = self.h_to_buffer
        I.call_hooks["NumpyScalar._from_buffer"] = self.h_from_buffer
        I.call_hooks["NumpyScalar._array_to_buffer"] = self.h_array_to_buffer
        I.call_hooks["NumpyScalar._array_from_buffer"] = self.h_array_from_buffer
        I.call_hooks["allocate_on_buffer"] = self.h_allocate
        I.call_hooks["_to_slot_size"] = self.h_slot
        self.alloc_pos = Sym(Poly.atom("off"))
        self.private_buffers = True
        self.zero_fill = False  # opt-in (with copy_bytes): reads of never-written bytes give zeros
        self.polys = {}  # key -> position polynomial of the words stored through the scalar hooks
        self.copy_bytes = False  # opt-in: buffer-to-buffer copies carry the known words of the source range along

    # ---------------------------------------------------------------- hooks
    def h_slot(self, I, args, kwargs):
        (x,) = args
        p = P(x)
        if p.is_const():
            r = (p.const_value() + 7) & -8
            return NpInt(r) if isinstance(x, NpInt) else r  # (a numpy integer stays one)
        # slot(8*k + c) simplifications are not attempted: idiom atom
        return Sym(Poly.atom(f"slot({p!r})"))

    def h_allocate(self, I, args, kwargs):
        size, _ctx, buf, _off = (list(args) + [None] * 4)[:4]
        names = ["size", "context", "buffer", "offset"]
        vals = {nm: v for nm, v in zip(names, args)}
        vals.update({k: v for k, v in kwargs.items() if k in names})
        size, buf = vals.get("size"), vals.get("buffer")
        given = vals.get("offset")
        if given is not None and not isinstance(given, str) and topoly(given) is not None and isinstance(buf, Obj):
            # an explicit position is used as given (nothing is allocated)
            I.effects.append(Effect("placed", size=size, pos=given, buf=buf))
            return (buf, given)
        n = sum(1 for e in I.effects if e.kind == "alloc")
        pos = self.alloc_pos if n == 0 else Sym(Poly.atom(f"off{n}"))
        if not isinstance(buf, Obj):
            # no buffer given: the library creates a NEW buffer on the (default) context -- never the buffer of any
            # existing object (`x._buffer is buffer` is false for such temporaries, e.g. default field values)
            buf = self.mk_buffer(f"private{n}") if self.private_buffers else self.buffer
        I.effects.append(Effect("alloc", size=size, pos=pos, buf=buf))
        return (buf, pos)

    def _size(self, I, scalar):
        return I.getattr(scalar, "_size")

    @staticmethod
    def _bind(args, kwargs, names):
        vals = list(args)
        for nm in names[len(vals):]:
            if nm in kwargs:
                vals.append(kwargs[nm])
            else:
                break
        if len(vals) < len(names):
            raise AnalysisError(f"absmem: scalar helper called without {names[len(vals):]}")
        return vals[: len(names)]

    def h_to_buffer(self, I, args, kwargs):
        scalar, buffer, offset, value = self._bind(args, kwargs, ["self", "buffer", "offset", "value"])
        n = self._size(I, scalar)
        I.effects.append(Effect("write", pos=P(offset), n=n, value=value, buf=buffer))
        I.mem[key(offset)] = value
        self.polys[key(offset)] = P(offset)
        return None

    def h_from_buffer(self, I, args, kwargs):
        scalar, buffer = args[0], args[1]
        offset = args[2] if len(args) > 2 else kwargs.get("offset", 0)
        n = self._size(I, scalar)
        I.effects.append(Effect("read", pos=P(offset), n=n, buf=buffer))
        k = key(offset)
        if k in I.mem:
            return I.mem[k]
        return Sym(Poly.atom(f"W[{k}]"))

    def h_array_to_buffer(self, I, args, kwargs):
        scalar, buffer, offset, arr = self._bind(args, kwargs, ["self", "buffer", "offset", "value"])
        n = self._size(I, scalar)
        if isinstance(arr, SArr) and arr.sym is None:
            flat = arr.flat()
            for i, v in enumerate(flat):
                I.mem[repr(P(offset) + Poly.const(n * i))] = v
                self.polys[repr(P(offset) + Poly.const(n * i))] = P(offset) + Poly.const(n * i)
            I.effects.append(Effect("write_array", pos=P(offset), n=n, count=len(flat), values=flat, buf=buffer))
        else:
            I.effects.append(Effect("write_array", pos=P(offset), n=n, count=None, values=arr, buf=buffer))
        return None

    def h_array_from_buffer(self, I, args, kwargs):
        scalar, buffer, offset, count = self._bind(args, kwargs, ["self", "buffer", "offset", "count"])
        n = self._size(I, scalar)
        I.effects.append(Effect("read_array", pos=P(offset), n=n, count=count, buf=buffer))
        if isinstance(count, int):
            a = SArr([count])
            for i in range(count):
                k = repr(P(offset) + Poly.const(n * i))
                a.data[(i,)] = I.mem[k] if k in I.mem else Sym(Poly.atom(f"W[{k}]"))
            return a
        return SArr([0], sym=f"words@{key(offset)}")

    # ---------------------------------------------------------------- known words and byte strings of a range
    @staticmethod
    def _rel(pp, lo):
        d = pp - lo
        return d.const_value() if d.is_const() else None

    def _get_words(self, I, lo, n):
        """[(offset relative to lo, value)] of the known words that start inside [lo, lo + n)"""
        out = []
        for kk in I.mem:
            pp = self.polys.get(kk) if not kk.startswith("#") else None
            r = self._rel(pp, lo) if pp is not None else None
            if r is not None and 0 <= r < n:
                out.append((r, I.mem[kk]))
        return sorted(out, key=lambda t: t[0])

    def _get_bytes(self, I, lo, n):
        """[(offset relative to lo, bytes)]: the parts of the known byte strings that lie inside [lo, lo + n)"""
        out = []
        for pp, data in I.mem.get("#bytes", {}).values():
            r = self._rel(pp, lo)
            if r is None or r >= n or r + len(data) <= 0:
                continue
            a, b = max(r, 0), min(r + len(data), n)
            out.append((a, data[a - r: b - r]))
        return sorted(out, key=lambda t: t[0])

    @staticmethod
    def _join(pieces, n):
        """the n bytes the pieces make up when they cover [0, n) without a gap, else None"""
        buf, pos = b"", 0
        for r, data in pieces:
            if r > pos:
                return None
            buf += data[pos - r:]
            pos = max(pos, r + len(data))
        return buf[:n] if pos >= n and n > 0 else None

    def _cut(self, I, lo, n):
        """forget what is known about [lo, lo + n): words that start inside, and the inside part of byte strings"""
        for kk in [kk for kk in list(I.mem) if not kk.startswith("#") and kk in self.polys]:
            r = self._rel(self.polys[kk], lo)
            if r is not None and 0 <= r < n:
                del I.mem[kk]
        bs = I.mem.get("#bytes")
        if not bs:
            return
        for kk, (pp, data) in list(bs.items()):
            r = self._rel(pp, lo)
            if r is None or r >= n or r + len(data) <= 0:
                continue
            del bs[kk]
            if r < 0:
                bs[repr(pp)] = (pp, data[: -r])
            if r + len(data) > n:
                q = lo + Poly.const(n)
                bs[repr(q)] = (q, data[n - r:])

    def _put_word(self, I, pos, val):
        I.mem[repr(pos)] = val
        self.polys[repr(pos)] = pos

    def _put_bytes(self, I, pos, data):
        if data:
            I.mem.setdefault("#bytes", {})[repr(pos)] = (pos, bytes(data))

    # ---------------------------------------------------------------- abstract buffer
    def mk_buffer(self, name):
        I = self.I
        ctx = Obj("context", {"nplike_array_type": Opaque("nplike_array_type"), "nparray_to_context_array": Builtin("nparray_to_context_array", lambda a: a)}, name=f"ctx:{name}")
        b = Obj("buffer", {}, name=name)
        b.attrs["context"] = ctx

        def rec(kind):
            def f(*a, **k):
                # arguments given by keyword are brought to the positional order of the abstract signature
                sig = {"to_bytearray": ("offset", "nbytes"), "update_from_buffer": ("offset", "source"), "update_from_native": ("offset", "source", "source_offset", "nbytes"),
                       "update_from_xbuffer": ("offset", "source", "source_offset", "nbytes"), "update_from_nplike": ("offset", "dest_dtype", "value"),
                       "to_nplike": ("offset", "dtype", "shape"), "to_nparray": ("offset", "dtype", "shape"), "to_native": ("offset", "nbytes")}.get(kind)
                if sig and k:
                    a = list(a)
                    for name in sig[len(a):]:
                        if name not in k:
                            break
                        a.append(k.pop(name))
                    a = tuple(a)
                I.effects.append(Effect(kind, args=a, kwargs=k, buf=b))
                if self.copy_bytes and kind == "update_from_buffer" and len(a) == 2 and isinstance(a[1], (bytes, bytearray)) and topoly(a[0]) is not None:
                    # known byte strings are kept (per path: the store lives in I.mem under a reserved key)
                    self._cut(I, topoly(a[0]), len(a[1]))
                    self._put_bytes(I, topoly(a[0]), bytes(a[1]))
                if self.copy_bytes and kind == "update_from_buffer" and len(a) == 2 and not isinstance(a[1], (bytes, bytearray, Snapshot)) and topoly(a[0]) is not None:
                    # data of unknown content and length: nothing at or behind the position (same allocation) stays known
                    self._cut(I, topoly(a[0]), 1 << 40)
                    I.mem["#imprecise"] = True
                if self.copy_bytes and kind in ("update_from_nplike", "update_from_native") and a and topoly(a[0]) is not None:
                    # bulk stores whose content this memory does not follow
                    self._cut(I, topoly(a[0]), 1 << 40)
                    I.mem["#imprecise"] = True
                if self.copy_bytes and kind == "to_bytearray" and len(a) == 2 and topoly(a[0]) is not None and topoly(a[1]) is not None and topoly(a[1]).is_const():
                    src, nb = topoly(a[0]), topoly(a[1]).const_value()
                    pieces = self._get_bytes(I, src, nb)
                    got = self._join(pieces, nb)
                    if got is not None:
                        return bytearray(got)
                    if not pieces and self.zero_fill and not self._get_words(I, src, nb):
                        # never-written storage of a fresh buffer (no free / reuse in this world) is zero
                        return bytearray(nb)
                    # not one known string: opaque to the code, but restorable
                    return Snapshot(f"bytes@{a[0]!r}+{a[1]!r}", src, nb, self._get_words(I, src, nb), pieces)
                if kind == "update_from_xbuffer" and self.copy_bytes and len(a) == 4:
                    dst, src, nb = topoly(a[0]), topoly(a[2]), topoly(a[3])
                    if dst is not None and src is not None and nb is not None and nb.is_const():
                        n = nb.const_value()
                        words, pieces = self._get_words(I, src, n), self._get_bytes(I, src, n)
                        # what is not overwritten by something known becomes unknown
                        self._cut(I, dst, n)
                        for rel, val in words:
                            self._put_word(I, dst + Poly.const(rel), val)
                        for rel, data in pieces:
                            self._put_bytes(I, dst + Poly.const(rel), data)
                    elif dst is not None:
                        self._cut(I, dst, nb.const_value() if nb is not None and nb.is_const() else 1 << 40)
                        I.mem["#imprecise"] = True
                if self.copy_bytes and kind == "update_from_buffer" and len(a) == 2 and isinstance(a[1], Snapshot) and topoly(a[0]) is not None:
                    # the bytes of a range saved earlier are put back (save / restore around a refused update)
                    snap, dst = a[1], topoly(a[0])
                    self._cut(I, dst, snap.nbytes)
                    for rel, val in snap.words:
                        self._put_word(I, dst + Poly.const(rel), val)
                    for rel, data in snap.bytes:
                        self._put_bytes(I, dst + Poly.const(rel), data)
                if kind in ("to_nplike", "to_nparray"):
                    # an array-like view of the storage: an abstract stand-in -- using anything of it that is not modelled
                    # is a gap of the model (AnalysisError), never an AttributeError of the analysed program
                    return Obj("nplike", {"buf": b, "pos": topoly(a[0]) if a else None, "args": a}, name=f"{kind}@{a[0]!r}" if a else kind)
                if kind == "to_bytearray":
                    return Opaque(f"bytes@{a[0]!r}+{a[1]!r}")
                if kind == "allocate":
                    return Sym(Poly.atom(f"alloc{I._fresh()}"))
                return None

            return Builtin(f"buffer.{kind}", f)

        for kind in ("update_from_xbuffer", "update_from_buffer", "update_from_nplike", "update_from_native", "to_bytearray", "to_nplike", "to_nparray", "allocate", "free"):
            b.attrs[kind] = rec(kind)
        return b

    # ---------------------------------------------------------------- abstract type descriptors
    def info(self, **kw):
        Info = self.I.global_lookup("typeutils", "Info")
        return self.I.call(Info, [], kw)

    def desc(self, name, size, has_update=False, has_refs=False, ctype=None):
        """abstract inner type: static (`size` int) or dynamic (`size` None -> per-value Sym size)"""
        I = self.I
        d = Obj("desc", {}, name=name)
        d.attrs["_size"] = size
        d.attrs["__name__"] = name
        d.attrs["_c_type"] = ctype or name
        d.attrs["_has_refs"] = has_refs

        def inspect(*a, **k):
            if size is not None:
                return self.info(size=size)
            return self.info(size=Sym(Poly.atom(f"n_{_clean(name)}")), dyn=True)

        def to_buffer(buffer, offset, value, info=None):
            sz = size if size is not None else (I.getattr(info, "size") if info is not None else Sym(Poly.atom(f"n_{_clean(name)}")))
            I.effects.append(Effect("child_write", name=name, pos=P(offset), size=sz, value=value, info=info, buf=buffer))
            if size is None:
                I.mem[key(offset)] = sz
            return None

        def from_buffer(buffer, offset=0):
            I.effects.append(Effect("child_read", name=name, pos=P(offset), buf=buffer))
            if has_update:
                pos = P(offset)
                v = Obj("view", {"_buffer": buffer, "_offset": offset}, name=f"view:{name}@{key(offset)}")
                v.tag = f"view:{name}@{key(offset)}"
                v.attrs["_update"] = Builtin(f"{name}.view._update", lambda value: I.effects.append(Effect("view_update", name=name, pos=pos, value=value, buf=buffer)))
                return v
            return Opaque(f"view:{name}@{key(offset)}")

        d.attrs["_inspect_args"] = Builtin(f"{name}._inspect_args", inspect)
        d.attrs["_to_buffer"] = Builtin(f"{name}._to_buffer", to_buffer)
        d.attrs["_from_buffer"] = Builtin(f"{name}._from_buffer", from_buffer)
        if has_update:
            d.attrs["_update"] = Builtin(f"{name}._update", lambda *a: None)
        return d


def _clean(t):
    return "".join(ch if ch.isalnum() or ch == "_" else "_" for ch in str(t))
