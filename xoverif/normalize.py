"""Normalisation of the analysed syntax trees for the *shape-matching* rules.

Rules that recognise a construct by its shape were written against a reference tree.  Behaviour-preserving edits
that maintainers make all the time -- extracting a few lines into a private helper, naming a sub-expression with a
temporary, writing an if/else assignment as a conditional expression -- must not change a verdict.  Before any
matching rule looks at a function, the tree is brought back towards the reference shape by three conservative,
semantics-preserving rewrites, applied only to what is NEW relative to the frozen census of the reference tree
(`xoverif/baseline_names.json`: functions per module, assigned local names per function):

  N1  a call of a NEW private helper (module function, or method called on self/cls/the class) is replaced by the
      helper's body, parameters substituted, helper locals renamed  (procedures; `x = h(..)` / `return h(..)` /
      `raise h(..)` for helpers ending in a single `return expr`; calls inside an expression for one-line helpers);
  N2  a NEW single-assignment local `t = expr` is substituted into its later uses when nothing `expr` mentions is
      re-assigned in between, and its definition removed;
  N3  `x = a if c else b` becomes `if c: x = a` / `else: x = b`.

The partial evaluator never sees the normalised trees (it interprets the raw source, `ModInfo.raw_tree`); the
normalised trees are only what `Model.func/cls/all_functions` hand to the matching rules.  Anything the rewrites do
not cover is left as it is: the rule then either still recognises the construct or ends with exit 2.
"""
import ast
import copy
import json
import os

BASELINE_PATH = os.path.join(os.path.dirname(os.path.abspath(__file__)), "baseline_names.json")
_BASELINE = None


def baseline():
    global _BASELINE
    if _BASELINE is None:
        if os.path.isfile(BASELINE_PATH):
            with open(BASELINE_PATH) as fh:
                _BASELINE = json.load(fh)
        else:
            _BASELINE = {}
    return _BASELINE


def _functions(tree):
    """qualname -> FunctionDef for module functions, methods, and closures one level down"""
    out = {}

    def walk(body, prefix):
        for st in body:
            if isinstance(st, (ast.FunctionDef, ast.AsyncFunctionDef)):
                q = prefix + st.name
                out.setdefault(q, st)
                walk(st.body, q + ".")
            elif isinstance(st, ast.ClassDef):
                walk(st.body, prefix + st.name + ".")
            elif isinstance(st, (ast.If, ast.Try, ast.With, ast.For, ast.While)):
                for fld in ("body", "orelse", "finalbody"):
                    walk(getattr(st, fld, []) or [], prefix)
                for h in getattr(st, "handlers", []) or []:
                    walk(h.body, prefix)

    walk(tree.body, "")
    return out


def assigned_names(fn):
    names = set()
    for n in _own(fn):
        if isinstance(n, ast.Name) and isinstance(n.ctx, ast.Store):
            names.add(n.id)
    return names


def census(tree):
    fns = _functions(tree)
    return {q: sorted(assigned_names(f)) for q, f in fns.items()}


def _own(fn):
    stack = list(fn.body)
    while stack:
        n = stack.pop()
        yield n
        for c in ast.iter_child_nodes(n):
            if isinstance(c, (ast.FunctionDef, ast.AsyncFunctionDef, ast.ClassDef, ast.Lambda)):
                continue
            stack.append(c)


class _Subst(ast.NodeTransformer):
    def __init__(self, mapping):
        self.mapping = mapping

    def visit_Name(self, node):
        if isinstance(node.ctx, ast.Load) and node.id in self.mapping:
            return ast.copy_location(copy.deepcopy(self.mapping[node.id]), node)
        return node

    def visit_FunctionDef(self, node):
        return node

    def visit_Lambda(self, node):
        return node


class _Rename(ast.NodeTransformer):
    def __init__(self, mapping):
        self.mapping = mapping

    def visit_Name(self, node):
        if node.id in self.mapping:
            return ast.copy_location(ast.Name(id=self.mapping[node.id], ctx=node.ctx), node)
        return node


def _blocks(node):
    for fld in ("body", "orelse", "finalbody"):
        b = getattr(node, fld, None)
        if isinstance(b, list) and b and isinstance(b[0], ast.stmt):
            yield b
    for h in getattr(node, "handlers", []) or []:
        yield h.body


def _all_blocks(fn):
    out = []

    def rec(node):
        for b in _blocks(node):
            out.append(b)
            for st in b:
                if not isinstance(st, (ast.FunctionDef, ast.AsyncFunctionDef, ast.ClassDef)):
                    rec(st)

    rec(fn)
    return out


# ------------------------------------------------------------------------------------------ N3
def expand_ifexp(fn):
    changed = False
    for blk in _all_blocks(fn):
        i = 0
        while i < len(blk):
            st = blk[i]
            if isinstance(st, ast.Assign) and len(st.targets) == 1 and isinstance(st.value, ast.IfExp) and isinstance(st.targets[0], (ast.Name, ast.Attribute)):
                ie = st.value
                a = ast.copy_location(ast.Assign(targets=[copy.deepcopy(st.targets[0])], value=ie.body), st)
                b = ast.copy_location(ast.Assign(targets=[copy.deepcopy(st.targets[0])], value=ie.orelse), st)
                blk[i] = ast.copy_location(ast.If(test=ie.test, body=[a], orelse=[b]), st)
                changed = True
            i += 1
    return changed


# ------------------------------------------------------------------------------------------ N1
def _helper_shape(h):
    """('proc', stmts) | ('func', stmts, expr) | None"""
    body = [s for s in h.body if not (isinstance(s, ast.Expr) and isinstance(s.value, ast.Constant) and isinstance(s.value.value, str))]
    rets = [n for n in _own(h) if isinstance(n, ast.Return)]
    if any(isinstance(n, (ast.Yield, ast.YieldFrom, ast.Global, ast.Nonlocal)) for n in _own(h)):
        return None
    if not rets or all(r.value is None for r in rets):
        if any(r is not body[-1] for r in rets) if rets else False:
            return None
        return ("proc", [s for s in body if not isinstance(s, ast.Return)])
    if len(rets) == 1 and body and body[-1] is rets[0] and rets[0].value is not None:
        return ("func", body[:-1], rets[0].value)
    if all(r.value is not None for r in rets) and _tail_returns(body):
        return ("tail", body)
    return None


def _tail_returns(stmts):
    """every path through `stmts` ends in a `return <value>` that is the last statement of its block (guard clauses)"""
    if not stmts:
        return False
    for i, st in enumerate(stmts):
        if isinstance(st, ast.Return):
            return i == len(stmts) - 1
        if isinstance(st, ast.If):
            b = _ends_with_return(st.body)
            o = _ends_with_return(st.orelse) if st.orelse else False
            if b or o:
                if not (_tail_returns(st.body) if b else not _has_return(st.body)):
                    return False
                if st.orelse and not (_tail_returns(st.orelse) if o else not _has_return(st.orelse)):
                    return False
                if b and (o or not st.orelse):
                    if b and o:
                        return i == len(stmts) - 1 or False
                    return _tail_returns(stmts[i + 1:])
                if o and not b:
                    return _tail_returns(stmts[i + 1:])
            elif _has_return(st.body) or _has_return(st.orelse):
                return False
        elif isinstance(st, (ast.For, ast.While, ast.Try, ast.With)) and _has_return([st]):
            return False
    return False


def _has_return(stmts):
    return any(isinstance(n, ast.Return) for s in stmts for n in ast.walk(s))


def _ends_with_return(stmts):
    return bool(stmts) and (isinstance(stmts[-1], ast.Return) or (isinstance(stmts[-1], ast.If) and _ends_with_return(stmts[-1].body) and bool(stmts[-1].orelse) and _ends_with_return(stmts[-1].orelse)))


def _returns_to_assign(stmts, target):
    """rewrite guard-clause returns into assignments to `target` (an ast expr) with if/else nesting"""
    out = []
    for i, st in enumerate(stmts):
        if isinstance(st, ast.Return):
            out.append(ast.Assign(targets=[copy.deepcopy(target)], value=st.value, lineno=getattr(st, "lineno", 0), col_offset=0))
            return out
        if isinstance(st, ast.If) and (_ends_with_return(st.body) or (st.orelse and _ends_with_return(st.orelse))):
            rest = stmts[i + 1:]
            b = _returns_to_assign(st.body, target) if _ends_with_return(st.body) else list(st.body) + _returns_to_assign(rest, target)
            if st.orelse:
                o = _returns_to_assign(st.orelse, target) if _ends_with_return(st.orelse) else list(st.orelse) + _returns_to_assign(rest, target)
            else:
                o = _returns_to_assign(rest, target)
            out.append(ast.If(test=st.test, body=b, orelse=o, lineno=getattr(st, "lineno", 0), col_offset=0))
            return out
        out.append(st)
    return out


def _bind(h, call, recv):
    """parameter name -> argument expression; None if the call cannot be bound simply"""
    a = h.args
    if a.vararg or a.kwarg or a.posonlyargs or any(isinstance(x, ast.Starred) for x in call.args) or any(k.arg is None for k in call.keywords):
        return None
    params = [x.arg for x in a.args]
    mapping = {}
    if recv is not None:
        if not params:
            return None
        mapping[params[0]] = recv
        params = params[1:]
    if len(call.args) > len(params):
        return None
    for p, v in zip(params, call.args):
        mapping[p] = v
    for k in call.keywords:
        if k.arg not in params and k.arg not in [x.arg for x in a.kwonlyargs]:
            return None
        mapping[k.arg] = k.value
    defaults = dict(zip([x.arg for x in a.args][len(a.args) - len(a.defaults):], a.defaults))
    for x, dflt in zip(a.kwonlyargs, a.kw_defaults):
        if dflt is not None:
            defaults[x.arg] = dflt
    for p in params + [x.arg for x in a.kwonlyargs]:
        if p not in mapping:
            if p in defaults:
                mapping[p] = defaults[p]
            else:
                return None
    return mapping


def _instantiate(h, shape, mapping, tag, result_target=None):
    mapping = dict(mapping)
    stored = assigned_names(h)
    prologue = []
    for p_ in [q for q in list(mapping) if q in stored]:
        # a parameter the helper re-binds cannot be substituted: it becomes a local initialised with the argument
        prologue.append(ast.Assign(targets=[ast.Name(id=f"_{tag}_{p_}", ctx=ast.Store())], value=copy.deepcopy(mapping.pop(p_)), lineno=0, col_offset=0))
    locs = stored - set(mapping)
    ren = {n: f"_{tag}_{n}" for n in locs}

    def inst(node):
        node = _Rename(ren).visit(copy.deepcopy(node))
        return _Subst(mapping).visit(node)

    stmts = [inst(s) for s in shape[1]]
    expr = inst(shape[2]) if shape[0] == "func" else None
    if shape[0] == "tail":
        resname = result_target or f"_{tag}_result"
        stmts = _returns_to_assign(stmts, ast.Name(id=resname, ctx=ast.Store()))
        expr = ast.Name(id=resname, ctx=ast.Load())
    return prologue + stmts, expr


def inline_helpers(fn, owner_cls, helpers, cls_helpers):
    """helpers: name -> FunctionDef (module level); cls_helpers: name -> FunctionDef (methods of owner_cls)"""
    changed = False

    def resolve(call):
        f = call.func
        if isinstance(f, ast.Name) and f.id in helpers:
            return helpers[f.id], None
        if isinstance(f, ast.Attribute) and f.attr in cls_helpers and isinstance(f.value, ast.Name) and f.value.id in ("self", "cls", owner_cls or "?"):
            h = cls_helpers[f.attr]
            decos = {ast.unparse(d) for d in h.decorator_list}
            if "staticmethod" in decos:
                return h, None
            if f.value.id == (owner_cls or "?") and "classmethod" not in decos:
                return h, "unbound"
            return h, f.value
        return None, None

    for blk in _all_blocks(fn):
        i = 0
        while i < len(blk):
            st = blk[i]
            call = None
            kind = None
            if isinstance(st, ast.Expr) and isinstance(st.value, ast.Call):
                call, kind = st.value, "expr"
            elif isinstance(st, ast.Assign) and isinstance(st.value, ast.Call):
                call, kind = st.value, "assign"
            elif isinstance(st, ast.Return) and isinstance(st.value, ast.Call):
                call, kind = st.value, "return"
            elif isinstance(st, ast.Raise) and isinstance(st.exc, ast.Call):
                call, kind = st.exc, "raise"
            done = False
            if call is not None:
                h, recv = resolve(call)
                if h is not None and h is not fn:
                    shape = _helper_shape(h)
                    if recv == "unbound":
                        mapping = _bind(h, call, None) if shape else None
                    else:
                        mapping = _bind(h, call, recv) if shape else None
                    if shape and mapping is not None:
                        rt = None
                        if shape[0] == "tail" and kind == "assign" and len(st.targets) == 1 and isinstance(st.targets[0], ast.Name) and st.targets[0].id not in {n.id for a_ in mapping.values() for n in ast.walk(a_) if isinstance(n, ast.Name)}:
                            rt = st.targets[0].id
                        body, expr = _instantiate(h, shape, mapping, h.name.strip("_"), result_target=rt)
                        for s in body:
                            ast.copy_location(s, st)
                            ast.fix_missing_locations(s)
                        if shape[0] == "proc" and kind == "expr":
                            blk[i:i + 1] = body or [ast.copy_location(ast.Pass(), st)]
                            done = True
                        elif shape[0] in ("func", "tail"):
                            if kind == "expr":
                                blk[i:i + 1] = body + [ast.copy_location(ast.Expr(value=expr), st)]
                            elif kind == "assign":
                                if rt is not None:
                                    blk[i:i + 1] = body  # the helper's returns were turned into assignments to the target itself
                                else:
                                    st.value = expr
                                    blk[i:i + 1] = body + [st]
                            elif kind == "return":
                                st.value = expr
                                blk[i:i + 1] = body + [st]
                            elif kind == "raise":
                                st.exc = expr
                                blk[i:i + 1] = body + [st]
                            done = True
                        if done:
                            changed = True
                            i += len(body)
            if not done:
                # one-line helpers used inside an expression
                class T(ast.NodeTransformer):
                    def visit_Call(self, node):
                        self.generic_visit(node)
                        h, recv = resolve(node)
                        if h is None or h is fn:
                            return node
                        shape = _helper_shape(h)
                        if not shape or shape[0] != "func" or shape[1]:
                            return node
                        mapping = _bind(h, node, None if recv in (None, "unbound") else recv)
                        if mapping is None:
                            return node
                        _, expr = _instantiate(h, shape, mapping, h.name.strip("_"))
                        nonlocal changed
                        changed = True
                        return ast.copy_location(expr, node)

                    def visit_FunctionDef(self, node):
                        return node

                    def visit_Lambda(self, node):
                        return node

                # only the expressions of this statement, not nested blocks (they are visited as blocks)
                for fld, val in list(ast.iter_fields(st)):
                    if fld in ("body", "orelse", "finalbody", "handlers"):
                        continue
                    if isinstance(val, ast.AST):
                        setattr(st, fld, T().visit(val))
                    elif isinstance(val, list):
                        setattr(st, fld, [T().visit(v) if isinstance(v, ast.AST) else v for v in val])
            i += 1
    return changed


# ------------------------------------------------------------------------------------------ N2
def inline_temps(fn, known_locals):
    params = {a.arg for a in fn.args.posonlyargs + fn.args.args + fn.args.kwonlyargs}
    if fn.args.vararg:
        params.add(fn.args.vararg.arg)
    if fn.args.kwarg:
        params.add(fn.args.kwarg.arg)
    changed = False
    for _ in range(6):
        stores = {}
        for n in _own(fn):
            if isinstance(n, ast.Name) and isinstance(n.ctx, ast.Store):
                stores[n.id] = stores.get(n.id, 0) + 1
        cand = None
        for blk in _all_blocks(fn):
            for i, st in enumerate(blk):
                if isinstance(st, ast.Assign) and len(st.targets) == 1 and isinstance(st.targets[0], ast.Name):
                    name = st.targets[0].id
                    if name in params or name in known_locals or stores.get(name, 0) != 1:
                        continue
                    if name.startswith("_") and name.count("_") >= 2 and False:
                        continue
                    if any(isinstance(x, (ast.Yield, ast.YieldFrom, ast.Await, ast.NamedExpr, ast.Lambda, ast.ListComp, ast.DictComp, ast.SetComp, ast.GeneratorExp)) for x in ast.walk(st.value)):
                        continue
                    if isinstance(st.value, (ast.Dict, ast.List, ast.Set, ast.Tuple)) and not isinstance(st.value, ast.Tuple):
                        continue  # a container that is filled afterwards is not a temporary
                    mutated = False
                    for n in _own(fn):
                        if isinstance(n, ast.Subscript) and isinstance(n.ctx, (ast.Store, ast.Del)) and isinstance(n.value, ast.Name) and n.value.id == name:
                            mutated = True
                        if isinstance(n, ast.Attribute) and isinstance(n.ctx, (ast.Store, ast.Del)) and isinstance(n.value, ast.Name) and n.value.id == name:
                            mutated = True
                        if isinstance(n, ast.Call) and isinstance(n.func, ast.Attribute) and isinstance(n.func.value, ast.Name) and n.func.value.id == name and n.func.attr in ("append", "extend", "insert", "update", "setdefault", "pop", "remove", "add", "clear", "sort"):
                            mutated = True
                    if mutated:
                        continue
                    free = {x.id for x in ast.walk(st.value) if isinstance(x, ast.Name)}
                    rest = blk[i + 1:]
                    # all uses must be inside `rest` (same block, later), nothing mentioned may be re-bound there
                    uses_elsewhere = False
                    for n in _own(fn):
                        if isinstance(n, ast.Name) and n.id == name and isinstance(n.ctx, ast.Load):
                            if not any(n is y for s in rest for y in ast.walk(s)):
                                uses_elsewhere = True
                    if uses_elsewhere:
                        continue
                    rebound = False
                    for s in rest:
                        for y in ast.walk(s):
                            if isinstance(y, ast.Name) and isinstance(y.ctx, (ast.Store, ast.Del)) and y.id in free:
                                rebound = True
                    if rebound:
                        continue
                    # a temporary defined inside a loop body and used only there is fine; defined before a loop and
                    # used inside it is fine as well (nothing it mentions is re-bound)
                    cand = (blk, i, name, st.value)
                    break
            if cand:
                break
        if not cand:
            break
        blk, i, name, value = cand
        rest = blk[i + 1:]
        sub = _Subst({name: value})
        blk[i + 1:] = [sub.visit(s) for s in rest]
        del blk[i]
        if not blk:
            blk.append(ast.Pass())
        changed = True
    return changed


# ------------------------------------------------------------------------------------------ N4
class _SliceCalls(ast.NodeTransformer):
    """x[slice(a, b)] -> x[a:b]   (what an inlined `slice(...)`-returning helper leaves behind)"""

    changed = False

    def visit_Subscript(self, node):
        self.generic_visit(node)
        sl = node.slice
        if isinstance(sl, ast.Call) and isinstance(sl.func, ast.Name) and sl.func.id == "slice" and not sl.keywords and 1 <= len(sl.args) <= 3:
            a = list(sl.args)
            lower, upper, step = (None, a[0], None) if len(a) == 1 else (a[0], a[1], a[2] if len(a) == 3 else None)
            none = lambda x: isinstance(x, ast.Constant) and x.value is None
            node.slice = ast.copy_location(ast.Slice(lower=None if lower is None or none(lower) else lower, upper=None if none(upper) else upper, step=None if step is None or none(step) else step), sl)
            _SliceCalls.changed = True
        return node

    def visit_FunctionDef(self, node):
        return node


def slice_calls(fn):
    _SliceCalls.changed = False
    t = _SliceCalls()
    fn.body = [t.visit(s) if not isinstance(s, (ast.FunctionDef, ast.ClassDef)) else s for s in fn.body]
    return _SliceCalls.changed


# ------------------------------------------------------------------------------------------ driver
def normalize_tree(raw_tree, modname, polymorphic=frozenset()):
    base = baseline().get(modname)
    if base is None:
        return raw_tree, []
    # cheap pre-check on the raw tree: is anything new relative to the reference census?
    fns0 = _functions(raw_tree)
    known_fn = set(base["functions"])
    needs = any(q not in known_fn for q in fns0) or any(
        (assigned_names(f) - set(base["functions"].get(q, []))) or any(isinstance(n, ast.IfExp) for n in _own(f)) for q, f in fns0.items()
    )
    if not needs:
        return raw_tree, []
    # deep copy without the parent links (they would drag the whole tree along for every node)
    for n in ast.walk(raw_tree):
        n.__dict__.pop("parent", None)
    tree = copy.deepcopy(raw_tree)
    for n in ast.walk(raw_tree):
        for c in ast.iter_child_nodes(n):
            c.parent = n
    raw_tree.parent = None
    fns = _functions(tree)
    log = []
    # (a new METHOD that another class of the package defines too is not a helper: `self.m(..)` may reach the override)
    new_fns = {q: f for q, f in fns.items() if q not in known_fn and not ("." in q and q.rsplit(".", 1)[1] in polymorphic)}
    mod_helpers = {q: f for q, f in new_fns.items() if "." not in q}
    for q, f in fns.items():
        if q in new_fns:
            continue
        owner = q.rsplit(".", 1)[0] if "." in q else None
        owner_cls = owner.split(".")[-1] if owner else None
        cls_helpers = {}
        if owner:
            for hq, hf in new_fns.items():
                if hq.rsplit(".", 1)[0] == owner.split(".")[0] or hq.rsplit(".", 1)[0] == owner:
                    cls_helpers[hq.rsplit(".", 1)[1]] = hf
        # helpers of other classes of the module called through the class name (Field._x(...)) are rare: skipped
        did = []
        known = set(base["functions"].get(q, []))
        has_new_local = bool(assigned_names(f) - known)
        has_ifexp = any(isinstance(n, ast.IfExp) for n in _own(f))
        if not (mod_helpers or cls_helpers or has_new_local or has_ifexp):
            continue
        for _ in range(3):
            c1 = inline_helpers(f, owner_cls, mod_helpers, cls_helpers) if (mod_helpers or cls_helpers) else False
            c3 = expand_ifexp(f)
            c2 = inline_temps(f, set(base["functions"].get(q, [])))
            if slice_calls(f):
                did.append("N4")
            if c1:
                did.append("N1")
            if c2:
                did.append("N2")
            if c3:
                did.append("N3")
            if not (c1 or c2 or c3):
                break
        if did:
            log.append((q, sorted(set(did))))
    ast.fix_missing_locations(tree)
    return tree, log


def make_baseline(root):
    """census of the reference tree: {module: {"functions": {qualname: [assigned local names]}}}"""
    out = {}
    pkg = os.path.join(root, "xobjects")
    for fn in sorted(os.listdir(pkg)):
        if fn.endswith(".py"):
            src = open(os.path.join(pkg, fn), encoding="utf8").read()
            tree = ast.parse(src)
            out[fn[:-3]] = {"functions": census(tree)}
    return out


if __name__ == "__main__":
    import sys

    root = sys.argv[1] if len(sys.argv) > 1 else "/repo"
    with open(BASELINE_PATH, "w") as fh:
        json.dump(make_baseline(root), fh, indent=0, sort_keys=True)
    print("baseline census written for", root)
