"""Tiny parser/evaluator for the C fragment the accessor generator emits.

Statements:  [type] name = expr ;   name += expr ;   return expr ;   lvalue = value ;
             if ( expr relop expr ) statement [else statement]   { statement* }
Expressions: + * numbers identifiers parentheses, casts `(type)`, loads `*(T*)((char*) obj+E)`,
             array element `arr[k]`.
Evaluation is over the abstract memory of the partial evaluator: `obj` is the base position, a
load of 8 bytes at obj+E returns the abstract word stored there.
"""
import re

from .linear import Poly
from .srcmodel import AnalysisError

TOK = re.compile(r"\s*(?:(\d+)|([A-Za-z_][A-Za-z_0-9]*)|(\+=|<=|>=|==|!=|&&|\|\||[-+*/()=;\[\],{}<>!]))")
TYPEWORDS = {"int64_t", "int32_t", "int16_t", "int8_t", "uint64_t", "uint32_t", "uint16_t", "uint8_t", "char", "double", "float", "void", "const", "unsigned", "signed", "long", "int", "short", "struct"}


def strip_comments(s):
    return re.sub(r"/\*.*?\*/", " ", s)


def comments(s):
    return re.findall(r"/\*.*?\*/", s)


def tokenize(s):
    s = strip_comments(s)
    out, pos = [], 0
    while pos < len(s):
        if s[pos:].strip() == "":
            break
        m = TOK.match(s, pos)
        if not m:
            raise AnalysisError(f"cexpr: cannot tokenise `{s[pos:pos+30]}`")
        num, ident, op = m.groups()
        if num is not None:
            out.append(("num", int(num)))
        elif ident is not None:
            out.append(("id", ident))
        else:
            out.append(("op", op))
        pos = m.end()
    return out


class Load:
    def __init__(self, ctype, addr):
        self.ctype = ctype
        self.addr = addr


class Node:
    def __init__(self, kind, *a):
        self.kind = kind
        self.a = a

    def __repr__(self):
        return f"{self.kind}{self.a}"


class Parser:
    def __init__(self, toks, typenames=()):
        self.t = toks
        self.i = 0
        self.typenames = set(typenames) | TYPEWORDS

    def peek(self, k=0):
        return self.t[self.i + k] if self.i + k < len(self.t) else (None, None)

    def eat(self, kind=None, val=None):
        tk = self.peek()
        if (kind and tk[0] != kind) or (val is not None and tk[1] != val):
            raise AnalysisError(f"cexpr: expected {val or kind}, got {tk} at token {self.i}")
        self.i += 1
        return tk

    def is_type_start(self, k=0):
        tk = self.peek(k)
        return tk[0] == "id" and tk[1] in self.typenames

    def parse_type(self):
        words = []
        while self.is_type_start():
            words.append(self.eat()[1])
        stars = 0
        while self.peek() == ("op", "*"):
            self.eat()
            stars += 1
        if not words:
            raise AnalysisError("cexpr: type expected")
        return " ".join(words) + "*" * stars

    def expr(self):
        n = self.term()
        while self.peek() in (("op", "+"), ("op", "-")):
            op = self.eat()[1]
            r = self.term()
            n = Node("add" if op == "+" else "sub", n, r)
        return n

    def term(self):
        n = self.unary()
        while self.peek() == ("op", "*") or self.peek() == ("op", "/"):
            op = self.eat()[1]
            r = self.unary()
            n = Node("mul" if op == "*" else "div", n, r)
        return n

    def unary(self):
        tk = self.peek()
        if tk == ("op", "*"):
            self.eat()
            inner = self.unary()
            return Node("deref", inner)
        if tk == ("op", "-"):
            self.eat()
            return Node("neg", self.unary())
        if tk == ("op", "(") and self.is_type_start(1):
            self.eat()
            ty = self.parse_type()
            self.eat("op", ")")
            inner = self.unary()
            return Node("cast", ty, inner)
        return self.postfix()

    def postfix(self):
        n = self.primary()
        while self.peek() == ("op", "["):
            self.eat()
            k = self.expr()
            self.eat("op", "]")
            n = Node("index", n, k)
        while self.peek() == ("op", "(") and n.kind == "id":
            self.eat()
            args = []
            if self.peek() != ("op", ")"):
                args.append(self.expr())
                while self.peek() == ("op", ","):
                    self.eat()
                    args.append(self.expr())
            self.eat("op", ")")
            n = Node("call", n.a[0], args)
        return n

    def primary(self):
        tk = self.peek()
        if tk[0] == "num":
            self.eat()
            return Node("num", tk[1])
        if tk[0] == "id":
            self.eat()
            return Node("id", tk[1])
        if tk == ("op", "("):
            self.eat()
            n = self.expr()
            self.eat("op", ")")
            return n
        raise AnalysisError(f"cexpr: unexpected token {tk}")

    def cond(self):
        a = self.expr()
        tk = self.peek()
        if tk[0] == "op" and tk[1] in ("<", ">", "<=", ">=", "==", "!="):
            self.eat()
            b = self.expr()
            return Node("cmp", tk[1], a, b)
        return Node("cmp", "!=", a, Node("num", 0))

    def block_or_statement(self):
        if self.peek() == ("op", "{"):
            self.eat()
            out = []
            while self.peek() != ("op", "}"):
                out.append(self.statement())
            self.eat("op", "}")
            return out
        return [self.statement()]

    def statement(self):
        """returns (kind, ...) : decl/assign/augadd/return/store/if"""
        if self.peek() == ("id", "if") and self.peek(1) == ("op", "("):
            self.eat()
            self.eat("op", "(")
            c = self.cond()
            if self.peek()[0] == "op" and self.peek()[1] in ("&&", "||"):
                raise AnalysisError("cexpr: compound condition")
            self.eat("op", ")")
            then = self.block_or_statement()
            other = []
            if self.peek() == ("id", "else"):
                self.eat()
                other = self.block_or_statement()
            return ("if", c, then, other)
        if self.peek() == ("id", "return"):
            self.eat()
            e = self.expr()
            self.eat("op", ";")
            return ("return", e)
        if self.is_type_start() and self.peek(1)[0] in ("id", "op") and not (self.peek(1) == ("op", "(")):
            save = self.i
            ty = self.parse_type()
            if self.peek()[0] == "id":
                name = self.eat()[1]
                self.eat("op", "=")
                e = self.expr()
                self.eat("op", ";")
                return ("decl", ty, name, e)
            self.i = save
        lhs = self.unary()
        tk = self.peek()
        if tk == ("op", "+="):
            self.eat()
            e = self.expr()
            self.eat("op", ";")
            return ("augadd", lhs, e)
        if tk == ("op", "="):
            self.eat()
            e = self.expr()
            self.eat("op", ";")
            return ("assign", lhs, e)
        raise AnalysisError(f"cexpr: statement not recognised at token {self.i}: {self.t[self.i:self.i+6]}")


def parse_body(text, typenames=()):
    """parse the statements between the first `{` and the last `}` of a generated function"""
    i, j = text.index("{"), text.rindex("}")
    body = text[i + 1 : j]
    toks = tokenize(body)
    p = Parser(toks, typenames)
    out = []
    while p.i < len(p.t):
        out.append(p.statement())
    return out


class CEval:
    """evaluates parsed statements over the abstract memory; `obj` is the symbolic base position"""

    def __init__(self, mem, base, env=None, allow_early=False):
        self.mem = mem
        self.base = base  # Poly
        self.env = dict(env or {})
        self.loads = []  # (ctype, addr poly) in order
        self.trace = []
        # conditional exits whose condition the abstract state does not decide: (condition text, outcome).  A caller
        # that does not ask for them gets "not decided" (AnalysisError), never a silent pass
        self.allow_early = allow_early
        self.early = []
        self.declared = set()
        self.redecl = []  # names declared twice in the function's outermost scope: a C compiler refuses the function

    def decide(self, c):
        """True / False / None (not decided by the abstract state).  The positions of the zoo are symbolic, so the
        SIGN of a stored relative offset is open (a member may lie before or behind the slot that refers to it); a
        live word is never the null encoding (|relative offset| < capacity << 2**62)."""
        op, a, b = c.a[0], self.ev(c.a[1]), self.ev(c.a[2])
        if not (isinstance(a, Poly) and isinstance(b, Poly)):
            raise AnalysisError("cexpr: comparison of pointers")
        d = a - b
        k = d.const_value() if d.is_const() else None
        if k is not None:
            return {"<": k < 0, ">": k > 0, "<=": k <= 0, ">=": k >= 0, "==": k == 0, "!=": k != 0}[op]
        if op in ("==", "!="):
            for x, y in ((a, b), (b, a)):
                if x.is_const() and abs(x.const_value()) >= 2**62 and not y.is_const():
                    return op == "!="
        return None

    def ev(self, n):
        k = n.kind
        if k == "num":
            return Poly.const(n.a[0])
        if k == "id":
            name = n.a[0]
            if name == "obj":
                return ("ptr", Poly.const(0))
            if name in self.env:
                return self.env[name]
            return Poly.atom(name)
        if k in ("add", "sub"):
            a, b = self.ev(n.a[0]), self.ev(n.a[1])
            if isinstance(a, tuple) and a[0] == "ptr" and isinstance(b, Poly):
                raise AnalysisError("cexpr: arithmetic on the untyped object handle")
            for x, y in ((a, b), (b, a)):
                if isinstance(x, tuple) and x[0] == "tptr" and isinstance(y, Poly) and (k == "add" or x is a):
                    w = Poly.const(_width(x[2]))
                    return ("tptr", x[1] + y * w if k == "add" else x[1] - y * w, x[2])
            if isinstance(a, Poly) and isinstance(b, Poly):
                return a + b if k == "add" else a - b
            raise AnalysisError("cexpr: pointer arithmetic form not supported")
        if k == "mul":
            a, b = self.ev(n.a[0]), self.ev(n.a[1])
            if isinstance(a, Poly) and isinstance(b, Poly):
                return a * b
            raise AnalysisError("cexpr: multiplication with a pointer")
        if k == "neg":
            return -self.ev(n.a[0])
        if k == "cast":
            v = self.ev(n.a[1])
            if isinstance(v, tuple) and v[0] in ("ptr", "tptr"):
                return ("tptr", v[1], n.a[0])
            return v
        if k == "deref":
            v = self.ev(n.a[0])
            if isinstance(v, tuple) and v[0] == "tptr":
                return self.load(v[2], v[1])
            raise AnalysisError("cexpr: dereference of an untyped pointer")
        if k == "index":
            base = self.ev(n.a[0])
            idx = self.ev(n.a[1])
            if isinstance(base, tuple) and base[0] == "tptr" and isinstance(idx, Poly):
                w = _width(base[2])
                return self.load(base[2], base[1] + idx * Poly.const(w))
            raise AnalysisError("cexpr: indexing a non-pointer")
        raise AnalysisError(f"cexpr: cannot evaluate {n}")

    def load(self, ptype, off):
        addr = self.base + off
        self.loads.append((ptype, off))
        key = repr(addr)
        if key in self.mem:
            v = self.mem[key]
            from .peval import topoly

            p = topoly(v)
            if p is None:
                return Poly.atom(f"M[{key}]")
            return p
        return Poly.atom(f"M[{key}]")

    def run(self, stmts):
        """returns ('return', value) or None; records offset history"""
        for st in stmts:
            if st[0] == "if":
                _, c, then, other = st
                d = self.decide(c)
                if d is not None:
                    r = self.run(then if d else other)
                    if r is not None:
                        return r
                    continue
                if not self.allow_early:
                    raise AnalysisError(f"cexpr: the condition {c} is not decided by the abstract state")
                # not decided: an arm that LEAVES the function is recorded as a conditional exit and the evaluation
                # goes on along the other arm; two arms that both go on would need a join of states (not supported)
                arms = []
                for arm in (then, other):
                    sub = CEval(self.mem, self.base, self.env, allow_early=True)
                    arms.append((sub, sub.run(arm) if arm else None))
                leaving = [i for i, (_, r) in enumerate(arms) if r is not None]
                if len(leaving) == 2 or not leaving:
                    if not leaving and not then and not other:
                        continue
                    raise AnalysisError(f"cexpr: undecided condition {c} with {'two leaving arms' if leaving else 'no leaving arm'}")
                i = leaving[0]
                self.early.append((("" if i == 0 else "not ") + _show(c), arms[i][1]))
                self.early.extend(arms[i][0].early)
                stay = arms[1 - i][0]
                self.env, self.early = stay.env, self.early + stay.early
                self.loads += stay.loads
                continue
            if st[0] == "decl":
                _, ty, name, e = st
                if name in self.declared and name not in self.redecl:
                    self.redecl.append(name)
                self.declared.add(name)
                self.env[name] = self.ev(e)
                self.trace.append(("decl", ty, name, self.env[name]))
            elif st[0] == "augadd":
                lhs, e = st[1], st[2]
                if lhs.kind != "id":
                    raise AnalysisError("cexpr: += on a non-variable")
                cur = self.env.get(lhs.a[0])
                v = self.ev(e)
                self.env[lhs.a[0]] = cur + v
                self.trace.append(("augadd", lhs.a[0], v))
            elif st[0] == "assign":
                lhs, e = st[1], st[2]
                if lhs.kind == "id":
                    self.env[lhs.a[0]] = self.ev(e)
                    self.trace.append(("assign", lhs.a[0], self.env[lhs.a[0]]))
                else:
                    # store through a typed pointer: *(T*)(...) = value
                    if lhs.kind == "deref":
                        tgt = self.ev(lhs.a[0])
                        val = self.ev(e)
                        self.trace.append(("store", tgt, val))
                        return ("store", tgt, val)
                    raise AnalysisError("cexpr: unsupported store form")
            elif st[0] == "return":
                v = self.ev(st[1])
                self.trace.append(("return", v))
                return ("return", v)
        return None


def _show(n):
    if n.kind == "cmp":
        return f"{_show(n.a[1])} {n.a[0]} {_show(n.a[2])}"
    if n.kind == "num":
        return str(n.a[0])
    if n.kind == "id":
        return n.a[0]
    if n.kind in ("add", "sub", "mul", "div"):
        return f"({_show(n.a[0])} {dict(add='+', sub='-', mul='*', div='/')[n.kind]} {_show(n.a[1])})"
    if n.kind == "deref":
        return "*" + _show(n.a[0])
    if n.kind == "cast":
        return f"({n.a[0]}){_show(n.a[1])}"
    if n.kind == "neg":
        return "-" + _show(n.a[0])
    return n.kind


def _width(ptype):
    base = ptype.replace("*", "").strip().split()[-1]
    return {"int64_t": 8, "uint64_t": 8, "double": 8, "int32_t": 4, "uint32_t": 4, "float": 4, "int16_t": 2, "uint16_t": 2, "int8_t": 1, "uint8_t": 1, "char": 1}.get(base, 8)
