"""CLI:  python -m xoverif.check C04 [--tier quick|thorough] [--root /repo] [--replay file]

exit 0  every rule instance holds (KNOWN-FINDING lines possible)
exit 1  VIOLATION property=<id> replay=<path>
exit 2  ANALYSIS-ERROR (anchor vanished, unrecognised shape, floor not met, checker bug)
"""
import argparse
import json
import os
import sys
import time

from . import core
from .core import BAD, NOTE, OK, VERIF
from .srcmodel import AnalysisError, Model


def load_rules():
    from .rules import ALL  # noqa: F401  (registers rules)


def main(argv=None):
    ap = argparse.ArgumentParser()
    ap.add_argument("prop", nargs="?")
    ap.add_argument("--tier", default=os.environ.get("VERIF_TIER", "quick"))
    ap.add_argument("--root", default=os.environ.get("XOVERIF_ROOT", "/repo"))
    ap.add_argument("--replay")
    ap.add_argument("--rules", help="comma separated subset of rule ids")
    ap.add_argument("--no-evidence", action="store_true")
    ap.add_argument("--verbose", "-v", action="store_true")
    args = ap.parse_args(argv)
    seed = int(os.environ.get("VERIF_SEED", "0") or 0)
    tier = args.tier if args.tier in ("quick", "thorough") else "quick"
    load_rules()

    if args.replay:
        with open(args.replay) as fh:
            rp = json.load(fh)
        args.prop = rp["property"]
        args.rules = ",".join(sorted({v["rule"].split(".")[0] for v in rp["violations"]}))
        args.no_evidence = True

    prop = args.prop
    if not prop:
        ap.error("property id required")
    if not core.rules_for(prop):
        print(f"ANALYSIS-ERROR property={prop}: no rule registered")
        return 2

    t0 = time.time()
    try:
        model = Model(args.root)
    except AnalysisError as e:
        print(f"ANALYSIS-ERROR property={prop}: {e}")
        return 2
    only = set(args.rules.split(",")) if args.rules else None
    insts, errors, per_rule = core.run_rules(model, prop, tier, only)

    if tier == "thorough" and not args.replay and only is None:
        # the thorough tier additionally validates the rules themselves (variants, fixtures)
        try:
            from .selftest import run_selftest

            st = run_selftest(prop, args.root)
        except AnalysisError as e:
            errors.append(f"selftest: {e}")
            st = None
    else:
        st = None

    known = core.load_known()
    known_keys = {f["key"]: f for f in known.get("findings", []) if f.get("property") in (prop, None) or prop in f.get("properties", [])}
    viol, hits = [], []
    for i in insts:
        if i.verdict == BAD:
            if i.key() in known_keys:
                hits.append(i)
            else:
                viol.append(i)

    hit_ids = {id(i) for i in hits}
    for i in insts:
        if args.verbose or i.verdict == BAD:
            tag = "known" if id(i) in hit_ids else {OK: "ok  ", BAD: "FAIL", NOTE: "note"}[i.verdict]
            print(f"{tag} {i.loc}: {i.rule} [{i.anchor}] {i.construct} {('-- ' + i.detail) if i.detail else ''}")
    for i in hits:
        print(f"KNOWN-FINDING: property={prop} {i.rule} at {i.anchor}: {i.construct} -- {known_keys[i.key()].get('what', i.detail)}")

    wall = time.time() - t0
    extra = {}
    if st is not None:
        extra["selftest"] = st["summary"]
        for line in st["lines"]:
            print(line)
        if st["failed"]:
            errors.append(f"selftest: {st['failed']} variant(s) not handled as expected: {st['failed_names'][:6]}")
    if not args.no_evidence and args.root == "/repo":
        core.write_evidence(prop, tier, seed, insts, errors, per_rule, model, wall, extra, [i.key() for i in hits])

    n_ok = sum(1 for i in insts if i.verdict == OK)
    print(
        f"property={prop} tier={tier} rules={len(per_rule)} instances={len(insts)} ok={n_ok} "
        f"violations={len(viol)} known={len(hits)} errors={len(errors)} wall={wall:.2f}s"
    )
    if errors:
        for e in errors:
            print(f"ANALYSIS-ERROR property={prop}: {e}")
    if viol:
        os.makedirs(os.path.join(VERIF, "replay"), exist_ok=True)
        rp = os.path.join(VERIF, "replay", f"{prop}.json")
        with open(rp, "w") as fh:
            json.dump({"property": prop, "root": args.root, "violations": [i.as_dict() for i in viol]}, fh, indent=1)
        print(f"VIOLATION property={prop} replay={rp}")
        return 1
    if errors:
        return 2
    return 0


if __name__ == "__main__":
    try:
        rc = main()
    except AnalysisError as e:
        print(f"ANALYSIS-ERROR: {e}")
        rc = 2
    except SystemExit:
        raise
    except Exception as e:  # never let a traceback look like a violation
        import traceback

        traceback.print_exc()
        print(f"ANALYSIS-ERROR: internal {type(e).__name__}: {e}")
        rc = 2
    sys.exit(rc)
