"""The documented binary layout, transcribed once (oracle of L1/L2/T1).

Sources (re-anchored on every run by check_docs; a vanished anchor is exit 2 "spec drift"):
  Architecture.md  "Struct ... memory layout": [ instance size ] / static fields / [ offset field 2..n ] / dynamic fields
  Architecture.md  "Array ... memory layout": [size] if not static shape or not static type; [dims] dynamic;
                   [strides...] if nd>1 and dynamic shapes; [offsets] if not static type; data
  docs/architecture/types.rst: "Data structure is organized in 64bit slots", struct table
                   (size / fixed-size field data / offsets of the 2nd to n-th variable sized / variable sized data),
                   array table (size / l variable dimensions / strides / data or offsets for m items)
  xobjects/array.py module docstring ("[stride1 stride2 ...] if nd>1") and the property text C05
  ("a table of item offsets arranged in the array's memory order").
"""
from .linear import Poly
from .srcmodel import AnalysisError

DOC_ANCHORS = {
    "Architecture.md": [
        "[ instance size ]",
        "[ offset field 2 ]",
        "[size] if not _is_static_shape or not _is_static_type",
        "[strides...] if nd>1 and dynamic shapes",
        "[offsets] if not _is_static_type",
    ],
    "docs/architecture/types.rst": [
        "organized in 64bit slots",
        "Offsets of the 2nd to n-th",
        "size of l-variable dimensions",
        "Data or offsets for m-items",
    ],
}


def check_docs(model, cx=None):
    for rel, needles in DOC_ANCHORS.items():
        txt = model.read_doc(rel)
        for n in needles:
            if n not in txt:
                raise AnalysisError(f"spec drift: `{n}` no longer found in {rel}; the documented layout the oracle was transcribed from changed")


def struct_layout(sizes, dyn_size, slot):
    """sizes[i] = static size in bytes or None (dynamic).  Returns the documented placement.

    all static:  fields in declaration order, each advanced by its slot-rounded size; no size word.
    otherwise:   [size] . static fields in declaration order (slot-rounded) . one offset word for the
                 2nd..n-th dynamic field . dynamic data in declaration order (slot-rounded each);
                 the first dynamic field starts right after the offset words and has no offset word.
    """
    n = len(sizes)
    dyn = [i for i, s in enumerate(sizes) if s is None]
    pos = [None] * n
    class_offset = [None] * n
    has_word = [False] * n
    if not dyn:
        cur = Poly.const(0)
        for i in range(n):
            pos[i] = cur
            class_offset[i] = cur
            cur = cur + slot(Poly.const(sizes[i]))
        return {"dynamic": False, "dyn": [], "pos": pos, "class_offset": class_offset, "has_offset_word": has_word, "total": cur}
    cur = Poly.const(8)
    for i in range(n):
        if sizes[i] is not None:
            pos[i] = cur
            class_offset[i] = cur
            cur = cur + slot(Poly.const(sizes[i]))
    for i in dyn[1:]:
        class_offset[i] = cur
        has_word[i] = True
        cur = cur + Poly.const(8)
    class_offset[dyn[0]] = cur
    for i in dyn:
        pos[i] = cur
        cur = cur + slot(dyn_size(i))
    return {"dynamic": True, "dyn": dyn, "pos": pos, "class_offset": class_offset, "has_offset_word": has_word, "total": cur}


def mem_strides(dims, order, isz):
    """strides per index axis; order[j] = index axis stored at memory position j (0 = slowest)"""
    nd = len(dims)
    st = [None] * nd
    acc = isz
    for j in range(nd - 1, -1, -1):
        ax = order[j]
        st[ax] = acc
        acc = acc * dims[ax]
    return st


def mem_order_indices(dims, order):
    """all index tuples in memory order (last memory axis fastest)"""
    import itertools

    nd = len(dims)
    out = []
    for mi in itertools.product(*[range(dims[order[j]]) for j in range(nd)]):
        idx = [None] * nd
        for j in range(nd):
            idx[order[j]] = mi[j]
        out.append(tuple(idx))
    return out


def array_layout(cshape, order, dims, isz, elem_sizes, slot):
    """documented array layout for a class shape (None = dynamic axis), concrete dims, item size
    (None = dynamically sized items with planned sizes elem_sizes[idx])."""
    nd = len(cshape)
    dynamic_shape = any(d is None for d in cshape)
    static_type = isz is not None
    items = 1
    for d in dims:
        items *= d
    slot_isz = isz if static_type else 8
    strides = [Poly.const(s) for s in mem_strides(dims, order, slot_isz)]
    header, names = [], []
    has_size = dynamic_shape or not static_type
    total = None  # filled below
    if has_size:
        header.append(None)
        names.append("size")
    if dynamic_shape:
        for k, d in enumerate(cshape):
            if d is None:
                header.append(Poly.const(dims[k]))
                names.append(f"dim{k}")
        if nd > 1:
            for k in range(nd):
                header.append(strides[k])
                names.append(f"stride{k}")
    data_offset = 8 * len(header)
    item_pos = {}
    if static_type:
        for idx in mem_order_indices(dims, order):
            item_pos[idx] = Poly.const(data_offset) + sum((Poly.const(i) * s for i, s in zip(idx, strides)), Poly())
        end = Poly.const(data_offset + isz * items)
    else:
        cur = Poly.const(data_offset + 8 * items)
        for idx in mem_order_indices(dims, order):
            item_pos[idx] = cur
            cur = cur + slot(elem_sizes[idx])
        end = cur
    total = slot(end)
    if has_size:
        header[0] = total
    static_size = None if has_size else slot(Poly.const(isz * items))
    return {
        "header": header,
        "header_names": names,
        "data_offset": data_offset,
        "strides": strides,
        "items": items,
        "item_pos": item_pos,
        "total": total,
        "static_size": static_size,
    }
