"""Rule infrastructure: instances, verdicts, floors, known findings, evidence, exit codes."""
import json
import os
import time
import traceback

from .srcmodel import AnalysisError, Model, norm, short

VERIF = os.path.dirname(os.path.dirname(os.path.abspath(__file__)))

OK, BAD, NOTE = "ok", "violation", "note"


class Inst:
    """one evaluated rule instance"""

    def __init__(self, rule, verdict, loc, anchor, construct, detail="", nf=None, trivial=False):
        self.rule = rule
        self.verdict = verdict
        self.loc = loc
        self.anchor = anchor  # module::qualname
        self.construct = construct  # normalised text (position independent)
        self.detail = detail
        self.nf = nf  # normal form shown in the evidence
        self.trivial = trivial

    def key(self):
        return f"{self.rule}|{self.anchor}|{self.construct}"

    def as_dict(self):
        d = {
            "rule": self.rule,
            "verdict": self.verdict,
            "at": self.loc,
            "anchor": self.anchor,
            "construct": self.construct,
        }
        if self.detail:
            d["detail"] = self.detail
        if self.nf is not None:
            d["normal_form"] = self.nf
        return d


class RuleCtx:
    """what a rule function gets: the model and recorders"""

    def __init__(self, model, tier, rule_id):
        self.m = model
        self.tier = tier
        self.rule = rule_id
        self.insts = []
        self.prop = None  # the property being checked (None when the rule runs as the decider of a diagnostic rule)
        self.partial = False  # set by a rule that ran only the part of its cases relevant to cx.prop

    def _mk(self, verdict, node, construct, detail, nf, anchor, trivial, sub):
        rule = self.rule if not sub else f"{self.rule}.{sub}"
        if node is not None and hasattr(node, "modname"):
            loc = self.m.loc(node)
            anc = anchor or self.m.qualname(node)
        else:
            loc = str(node) if node is not None else "-"
            anc = anchor or "-"
        if construct is None and node is not None and hasattr(node, "modname"):
            construct = short(node, 160)
        i = Inst(rule, verdict, loc, anc, construct or "", detail, nf, trivial)
        self.insts.append(i)
        return i

    def ok(self, node, construct=None, detail="", nf=None, anchor=None, trivial=False, sub=None):
        return self._mk(OK, node, construct, detail, nf, anchor, trivial, sub)

    def bad(self, node, construct=None, detail="", nf=None, anchor=None, sub=None):
        return self._mk(BAD, node, construct, detail, nf, anchor, False, sub)

    def note(self, node, construct=None, detail="", nf=None, anchor=None, sub=None):
        return self._mk(NOTE, node, construct, detail, nf, anchor, True, sub)

    def check(self, cond, node, construct=None, detail="", bad_detail=None, nf=None, anchor=None, sub=None):
        if cond:
            return self.ok(node, construct, detail, nf, anchor, sub=sub)
        return self.bad(node, construct, bad_detail or detail, nf, anchor, sub=sub)

    def recog(self, cond, node, what):
        """a construct the rule needs to recognise before it can say anything: absent or of another shape is
        "not recognised" (exit 2), never a violation -- only a positively identified wrong form is reported"""
        if not cond:
            loc = self.m.loc(node) if node is not None and hasattr(node, "modname") else "-"
            raise AnalysisError(f"[{self.rule}] {loc}: {what}: shape not recognised (the rule cannot decide this form)")

    def need(self, cond, msg):
        if not cond:
            raise AnalysisError(f"[{self.rule}] {msg}")

    def floor(self, n, what):
        have = len([i for i in self.insts if i.verdict in (OK, BAD)])
        if have < n:
            raise AnalysisError(
                f"[{self.rule}] instance count {have} fell below the floor {n} ({what}): "
                "the rule no longer matches the code it was written for"
            )


# ---------------------------------------------------------------------------------- registry
RULES = {}  # id -> (func, serves, title)


def rule(rid, serves, title):
    def deco(f):
        RULES[rid] = (f, tuple(serves), title)
        return f

    return deco


def rules_for(prop):
    return [rid for rid, (_, serves, _) in RULES.items() if prop in serves]


# ---------------------------------------------------------------------------------- findings
def load_known():
    p = os.path.join(VERIF, "known_findings.json")
    with open(p) as fh:
        k = json.load(fh)
    return k


# Shape-specific DIAGNOSTIC rules and the shape-independent rule that DECIDES the same behaviour by evaluation.
# A diagnostic rule recognises one skeleton of the code and explains precisely what is wrong with it; on code of another
# (equivalent) shape it may not recognise the construct or may mis-read it.  Its verdict therefore counts only when the
# deciding rule does not hold either: if the deciding rule evaluates the current source and finds the behaviour right,
# reports and "not recognised" errors of the diagnostic rule are downgraded to notes.
DIAGNOSTIC = {"F1": "FM", "F4": "FM", "G4": "R14", "R08": "R14", "R11u": "R14", "A1": "AM", "A2": "AM", "A3": "AM", "A4": "AM", "A5": "AM", "A6": "AM", "A7": "AM", "L3": ("L1", "L2"), "D1": "DG", "D2s": "DG", "D4": "DG", "G3": "G3e", "M1": ("L1", "L2", "PS"), "R10": ("R10e", "L2", "R12"), "H2": "HV", "H5": "HV", "H6": "HV", "H7": "HV", "G5h": "HV", "R10r": "SV", "J1": "JD", "K4": "K4e", "H4": ("HV", "JD", "H4e"), "GR": "AM", "G5": ("SV", "HV", "R13", "R14", "R11a"), "R11": ("R13", "R14", "G3e", "SV"), "G1": ("RV", "G1b", "SV"), "M1h": "HV", "K1": "K1e", "S11t": "S11e"}
# instances of pattern rules that are reported on CORRECT code of the reference tree and overruled there by the deciding
# rules (the save / restore idiom around a refused whole-value update: the raise after the restoring write; the retry of
# allocate after growth).  If the deciding rule cannot be evaluated, these reports are no positive identification.
OVERAPPROX = {("G5", "struct::Struct._update"), ("G5", "array::Array._update"), ("A6.grow-first", "context::XBuffer.allocate")}
_decided_cache = {}


def _decider_state(model, rid, tier):
    """'clean' (evaluated, holds) | 'bad' (evaluated, reports a violation) | 'undecided' (could not be evaluated)"""
    key = (id(model), rid)
    if key not in _decided_cache:
        f, _, _ = RULES[rid]
        cx = RuleCtx(model, tier, rid)
        try:
            f(cx)
            _decided_cache[key] = _state_of(cx)
        except Exception:
            _decided_cache[key] = "undecided"
    v = _decided_cache[key]
    return {True: "clean", False: "bad"}.get(v, v) if isinstance(v, bool) else v


def _state_of(cx):
    if any(i.verdict == BAD for i in cx.insts):
        return "bad"
    return "clean" if any(i.verdict == OK for i in cx.insts) else "undecided"


def _decider_clean(model, rid, tier):
    return _decider_state(model, rid, tier) == "clean"


def run_rules(model, prop, tier, only=None):
    """returns (insts, errors) ; errors = list of AnalysisError texts"""
    insts, errors, per_rule = [], [], {}
    for rid in rules_for(prop):
        if only and rid not in only:
            continue
        f, _, title = RULES[rid]
        cx = RuleCtx(model, tier, rid)
        cx.prop = prop
        t0 = time.time()
        my_errors = []
        try:
            f(cx)
            if not getattr(cx, "partial", False):
                _decided_cache.setdefault((id(model), rid), _state_of(cx))
        except AnalysisError as e:
            my_errors.append(str(e))
            if not getattr(cx, "partial", False):
                _decided_cache.setdefault((id(model), rid), "undecided")
        except Exception as e:  # checker bug / unsupported construct: analysis error, never a verdict
            tb = traceback.format_exc(limit=6)
            my_errors.append(f"[{rid}] internal error {type(e).__name__}: {e}\n{tb}")
        decs = DIAGNOSTIC.get(rid)
        decs = (decs,) if isinstance(decs, str) else decs
        if decs and (my_errors or any(i.verdict == BAD for i in cx.insts)) and all(d in RULES for d in decs) and all(_decider_clean(model, d, tier) for d in decs):
            dec = "+".join(decs)
            for i in cx.insts:
                if i.verdict == BAD:
                    i.verdict = NOTE
                    i.trivial = True
                    i.detail = f"(diagnostic for one code shape; the behaviour is decided by rule {dec}, which holds) " + i.detail
            for e in my_errors:
                cx.note(None, construct=f"{rid}: {e[:160]}", detail=f"shape not recognised by this diagnostic rule; decided by rule {dec}, which holds")
            my_errors = []
        elif decs and any(i.verdict == BAD for i in cx.insts) and all(d in RULES for d in decs):
            # a diagnostic (pattern) rule reports, and a rule that decides the behaviour could NOT be evaluated (a gap of
            # the model, not a verdict) while none of them reports: the pattern alone is not a positive identification
            states = [_decider_state(model, d, tier) for d in decs]
            if "bad" not in states and "undecided" in states:
                und = [d for d, st in zip(decs, states) if st == "undecided"]
                hit = False
                for i in cx.insts:
                    # only the reports this pattern rule is KNOWN to make on correct code (OVERAPPROX: the instances the
                    # deciding rules overrule on the reference tree); any other report is about something new and stands
                    if i.verdict == BAD and (i.rule, i.anchor) in OVERAPPROX:
                        i.verdict = NOTE
                        i.trivial = True
                        i.detail = f"(diagnostic for one code shape; its deciding rule {'+'.join(und)} could not be evaluated: not a verdict) " + i.detail
                        hit = True
                if hit:
                    my_errors.append(f"[{rid}] the diagnostic rule reports a construct it is known to over-approximate, and the deciding rule(s) {'+'.join(und)} could not be evaluated on this tree: not decided")
        errors.extend(my_errors)
        # one root cause over many class descriptors: keep three representatives per (rule, anchor)
        groups = {}
        kept = []
        for i in cx.insts:
            if i.verdict == BAD and i.loc == "-":
                g = groups.setdefault((i.rule, i.anchor), [])
                g.append(i)
                if len(g) > 3:
                    continue
            kept.append(i)
        for g in groups.values():
            if len(g) > 3:
                g[0].detail += f" (+{len(g) - 3} more descriptors with the same rule and anchor)"
        cx.insts = kept
        insts.extend(cx.insts)
        per_rule[rid] = {
            "title": title,
            "instances": len(cx.insts),
            "ok": sum(1 for i in cx.insts if i.verdict == OK),
            "violations": sum(1 for i in cx.insts if i.verdict == BAD),
            "notes": sum(1 for i in cx.insts if i.verdict == NOTE),
            "wall_s": round(time.time() - t0, 3),
        }
    return insts, errors, per_rule


def write_evidence(prop, tier, seed, insts, errors, per_rule, model, wall, extra=None, known_hits=()):
    ev_dir = os.path.join(VERIF, "evidence")
    os.makedirs(ev_dir, exist_ok=True)
    decided = [i for i in insts if i.verdict in (OK, BAD)]
    distinct = {(i.anchor, i.construct, i.rule) for i in decided if not i.trivial}
    samples = []
    seen_rules = set()
    for i in decided:
        if i.rule not in seen_rules:
            seen_rules.add(i.rule)
            samples.append(i.as_dict())
    for i in insts:
        if i.verdict == BAD:
            samples.append(i.as_dict())
    samples = samples[:60]
    cov = {
        "explanation": (
            "Static analysis of the current working tree of /repo (stdlib ast; nothing under /repo is "
            "imported or executed). Each rule instance below is a construct of the source (function, call "
            "site, emitted-code template, class descriptor x anchored function) on which a repository-"
            "specific rule was decided; see DESIGN.md for what each rule establishes and which clauses of "
            "the property stay undecided."
        ),
        "evaluations": len(insts),
        "distinct_nontrivial": len(distinct),
        "rule": (
            "instances are enumerated from the source by each rule (anchors x call sites x class "
            "descriptors); distinct = distinct (anchor, normalised construct, rule) triples; an instance is "
            "trivial when the rule had nothing to decide for it (notes, vacuous descriptor)"
        ),
        "obligations": len(decided),
        "discharged": sum(1 for i in decided if i.verdict == OK),
        "samples": samples,
        "rules": per_rule,
        "files_digest": model.digest() if model else None,
        "files_consulted": sorted(model.consulted) if model else [],
        "analysis_errors": errors,
        "known_findings_present": list(known_hits),
        "exhaustive": False,
    }
    if extra:
        cov.update(extra)
    ev = {
        "property_id": prop,
        "tier": tier,
        "seed": seed,
        "level": "other",
        "coverage": cov,
        "assumptions": [
            "callee resolution is by name inside the 20-file package (no inheritance beyond XBuffer/XContext)",
            "the kind table is closed over scalar, String, Struct, Array, Ref, UnionRef",
            "integers are unbounded; default_alignment is a power of two",
            "numpy/bytearray copy-vs-view table (slice of bytearray copies, slice of ndarray views)",
            "only structural clauses are decided; value-level clauses are listed as undecided in DESIGN.md",
        ],
        "wall_s": round(wall, 3),
        # (violations not listed in known_findings.json; the listed, still-present ones are in coverage.known_findings_present)
        "violations": sum(1 for i in insts if i.verdict == BAD and i.key() not in set(known_hits)),
    }
    with open(os.path.join(ev_dir, f"{prop}.json"), "w") as fh:
        json.dump(ev, fh, indent=1)
    return ev
